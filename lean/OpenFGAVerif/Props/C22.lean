/-
C22 — Internal concurrent queues behave like FIFO channels.

Models: `Model.Mpmc` (mpmc.Queue: Vyukov ring with per-slot sequence numbers, CAS on head/tail,
extend, Close, single-token wake-up channels) and `Model.Mpsc` (mpsc.Accumulator: CAS-then-link
list with end sentinel).  Both are transition systems over an *arbitrary* number of threads; an
interleaving is an explicit action list and every theorem below is ∀ action lists (induction with
an inductive invariant, `Proofs.Mpmc*`, `Proofs.Mpsc*`).

Atomicity.  One `step` is one access to a racy shared variable.  Merged into a neighbouring step:
`mu.RLock` (with the following load; a both-mover because the write-locked bodies are single
steps enabled only when no reader is inside), `mu.RUnlock` (with the preceding step; a left
mover), loads of `done`/`capacity`/`extensions`/`extended` (written only under the write lock,
hence stable for a reader), `ctx.Err()` (a flag only its own thread reads), and the write-locked
bodies of `extend`/`Grow`/`Close` (exclusive).  The channels `empty`/`full`/`signal` are modelled as
one-token buffers; Go's direct hand-off to a receiver already blocked in the channel is the
buffer step followed at once by the take, so the buffer model has every behaviour of the real
channel (safety theorems carry over); the negation witness `lost_wakeup_witness` is realisable on
the real queue (harness case `lostwake`, reproduced deterministically).

Partial: `FullWakeup` (the container-level claim for any number of consumers) is FALSE
(`not_fullWakeup`); what is proved is the single-consumer discipline the pipeline uses
(`wakeup_partial`, tie `tie_consumer_discipline`).
-/
import OpenFGAVerif.Proofs.MpmcDeliver
import OpenFGAVerif.Proofs.MpscProps
import OpenFGAVerif.Model.QueueLayout
import OpenFGAVerif.Gen.Queue

namespace OpenFGAVerif.C22
open OpenFGAVerif.Model

/-! ## Ties to the regenerated source facts -/

/-- the atomic / lock / channel operations of `Send`, `Recv`, `Close`, `extend`, `Grow`, `NewQueue`
appear in the source in exactly the order the model's program points perform them -/
theorem tie_mpmc_op_order :
    Gen.Queue.mpmcSendOps = QueueLayout.flat QueueLayout.mpmcSend ∧
    Gen.Queue.mpmcRecvOps = QueueLayout.flat QueueLayout.mpmcRecv ∧
    Gen.Queue.mpmcCloseOps = QueueLayout.flat QueueLayout.mpmcClose ∧
    Gen.Queue.mpmcExtendOps = QueueLayout.flat QueueLayout.mpmcExtend ∧
    Gen.Queue.mpmcGrowOps = QueueLayout.flat QueueLayout.mpmcGrow ∧
    Gen.Queue.mpmcNewQueueOps = QueueLayout.flat QueueLayout.mpmcNewQueue := by decide

theorem tie_mpsc_op_order :
    Gen.Queue.mpscSendOps = QueueLayout.flat QueueLayout.mpscSend ∧
    Gen.Queue.mpscRecvOps = QueueLayout.flat QueueLayout.mpscRecv ∧
    Gen.Queue.mpscTryRecvOps = QueueLayout.flat QueueLayout.mpscTryRecv ∧
    Gen.Queue.mpscCloseOps = QueueLayout.flat QueueLayout.mpscClose := by decide

/-- the branch conditions (diff tests, done/ctx guards, extension guard, done guard around the
`full` signal, nil / end tests) are the ones the model branches on -/
theorem tie_branches :
    Gen.Queue.mpmcSendConds = QueueLayout.mpmcSendConds ∧
    Gen.Queue.mpmcRecvConds = QueueLayout.mpmcRecvConds ∧
    Gen.Queue.mpmcCloseConds = ["if !p.done.Swap(true)"] ∧
    Gen.Queue.mpmcExtendConds = ["if uint(p.capacity) >= n", "for i < int64(n)"] ∧
    Gen.Queue.mpmcGrowConds = ["if !isPowerOfTwo(n)"] ∧
    Gen.Queue.mpmcNewQueueConds = ["if capacity < 2 || !isPowerOfTwo(capacity)"] ∧
    Gen.Queue.mpscSendConds ++ Gen.Queue.mpscRecvConds ++ Gen.Queue.mpscTryRecvConds ++ Gen.Queue.mpscCloseConds
      = QueueLayout.mpscConds ∧
    Gen.Queue.mpmcSendDiff = "seq - pos" ∧ Gen.Queue.mpmcRecvDiff = "seq - (pos + 1)" ∧
    Gen.Queue.mpmcSendCell = "&p.data[p.mask(pos)]" ∧ Gen.Queue.mpmcRecvCell = "&p.data[p.mask(pos)]" ∧
    Gen.Queue.mpscKinds = ["end", "data"] := by decide

/-- `extend` compacts positions tail … head-1 to 0 … size-1 (old index `mask(oldTail+i)`), and `Send`
decides about growing from a snapshot taken under the read lock -/
theorem tie_extend :
    Gen.Queue.mpmcExtendSize = "oldHead - oldTail" ∧ Gen.Queue.mpmcExtendOldIndex = "p.mask(oldTail + i)" ∧
    Gen.Queue.mpmcExtendNewData = "make([]slot[T], n)" ∧
    Gen.Queue.mpmcExtendLoops = ["currentSize", "i := currentSize"] ∧
    Gen.Queue.mpmcSendSnapshot = ["capacity := p.capacity", "extensions := p.extensions", "extended := p.extended"] := by
  decide

/-- wake-up channels hold one token; `done` of the accumulator is unbuffered (only ever closed) -/
theorem tie_channel_caps :
    Gen.Queue.mpmcEmptyCap = 1 ∧ Gen.Queue.mpmcFullCap = 1 ∧ Gen.Queue.mpscSignalCap = 1 ∧
    Gen.Queue.mpscDoneCap = 0 := by decide

/-- `mask` is `value & (capacity-1)`; for a power of two this is the model's `% cap` -/
theorem tie_mask : Gen.Queue.mpmcMask = "return value & (int64(p.capacity) - 1)" := by decide

theorem mask_eq_mod (pos k : Nat) : pos &&& (2 ^ k - 1) = pos % 2 ^ k :=
  Nat.and_two_pow_sub_one_eq_mod pos k

/-- the pipeline creates its mpmc queues with unlimited extensions, and every medium is read by one
goroutine: `QueueMedium.Recv` / `AccumulatorMedium.Recv` write a plain `closed bool` field (a data
race with two consumers) and the types are documented single-consumer -/
theorem tie_consumer_discipline :
    Gen.Queue.pipelineQueueExtensions = "-1" ∧
    Gen.Queue.queueMediumClosedType = "bool" ∧ Gen.Queue.accMediumClosedType = "bool" ∧
    Gen.Queue.queueMediumRecvWritesClosed = true ∧ Gen.Queue.accMediumRecvWritesClosed = true ∧
    Gen.Queue.mediumDocSingleConsumer = true ∧ Gen.Queue.queueMediumDocSingleConsumer = true ∧
    Gen.Queue.mpscTailFieldType = "*node[T]" ∧
    -- Core.ProcessSender reads its sender in the calling goroutine only (workers read an internal channel)
    Gen.Queue.processSenderRecvOutsideClosures = 1 ∧ Gen.Queue.processSenderRecvInsideClosures = 0 ∧
    Gen.Queue.processSenderDrainsInSameGoroutine = true := by decide

section MpmcTheorems
open OpenFGAVerif.Model.Mpmc OpenFGAVerif.Proofs.Mpmc

/-! ## mpmc.Queue -/

/-- **Slot-sequence invariant** (Vyukov ring with in-flight owners), after every action list. -/
theorem mpmc_slot_sequence_invariant {c : Nat} {x : Int} {s0 : State} (h : init c x = some s0)
    (as : List Action) : Inv (run s0 as) := inv_run h as

/-- **FIFO, linearised at the CAS.**  In every reachable state every enabled action refines the
abstract FIFO queue `absQ` (= what was linearised as sent and is not yet claimed): the successful
head CAS of `Send(v)` appends `v`, the successful tail CAS of a `Recv` removes the first element,
which is the value that receiver then reads from its slot; all other steps (including `extend`)
leave it unchanged. -/
theorem mpmc_refines_fifo {c : Nat} {x : Int} {s0 s' : State} (h : init c x = some s0)
    (as : List Action) (a : Action) (e : act (run s0 as) a = some s') :
    match lin (run s0 as) a with
    | some (some v) => absQ s' = absQ (run s0 as) ++ [v]
    | some none => ∃ t pos, a = .step t ∧ s'.pc t = .rRead pos ∧ absQ (run s0 as) = dt s' pos :: absQ s'
    | none => absQ s' = absQ (run s0 as) :=
  refines_fifo (inv_run h as) e

/-- **No loss, no duplication.**  After every action list: every value read by a receiver is the
value linearised at the position it claimed; no position is read twice; every claimed position has
been read or is owned by a receiver about to read it (which is never blocked); each receiver has
returned exactly the values it read (the last one may still be in flight); positions not yet
claimed are exactly `absQ`. -/
theorem mpmc_no_loss_no_dup {c : Nat} {x : Int} {s0 : State} (h : init c x = some s0) (as : List Action) :
    let s := run s0 as
    (∀ y ∈ s.taken, s.sent[y.2.1]? = some y.2.2) ∧
    (positions s).Nodup ∧
    (∀ k, k < s.off + s.tail → k ∈ positions s ∨ ∃ t q, s.pc t = .rRead q ∧ s.off + q = k) ∧
    (∀ y ∈ s.taken, y.2.1 < s.off + s.tail) ∧
    (∀ t, retsOf t s.log ++ inflight (s.pc t) = takenOf t s.taken) ∧
    absQ s = s.sent.drop (s.off + s.tail) ∧ s.sent.length = s.off + s.head := by
  obtain ⟨i, d⟩ := dlv_run h as
  exact ⟨d.val, d.nodup, d.cover, d.lt, d.rets, rfl, i.len⟩

/-- a receiver owning a position is never blocked: it reads, zeroes, recycles, signals, returns -/
theorem mpmc_owner_never_blocked (s : State) (t : Tid) (q : Nat) (v : Val)
    (h : s.pc t = .rRead q ∨ s.pc t = .rZero q v ∨ s.pc t = .rRecycle q v ∨ s.pc t = .rSig v ∨
         s.pc t = .sWrite q v ∨ s.pc t = .sPub q v ∨ s.pc t = .sSig v) : (stepT s t).isSome = true := by
  unfold stepT
  rcases h with h | h | h | h | h | h | h <;> simp [h]

/-- quiescent form: when no receiver is between claim and read, the read positions are exactly
`0 … T-1` (each once), so the multiset of received values is `sent.take T` and
`sent = received (by position) ++ in-queue`. -/
theorem mpmc_quiescent {c : Nat} {x : Int} {s0 : State} (h : init c x = some s0) (as : List Action)
    (hq : ∀ t q, (run s0 as).pc t ≠ .rRead q) :
    let s := run s0 as
    (positions s).Nodup ∧ (∀ k, k ∈ positions s ↔ k < s.off + s.tail) ∧
    (positions s).length = s.off + s.tail := by
  obtain ⟨i, d⟩ := dlv_run h as
  intro s
  have mem : ∀ k, k ∈ positions s ↔ k < s.off + s.tail := by
    intro k
    constructor
    · intro m
      simp only [positions, List.mem_map] at m
      obtain ⟨y, hy, e⟩ := m
      rw [← e]; exact d.lt y hy
    · intro hk
      rcases d.cover k hk with m | ⟨t, q, e, _⟩
      · exact m
      · exact absurd e (hq t q)
  refine ⟨d.nodup, mem, ?_⟩
  have hp : (positions s).Perm (List.range (s.off + s.tail)) := by
    rw [List.perm_ext_iff_of_nodup d.nodup List.nodup_range]
    intro k; rw [mem]; simp
  rw [hp.length_eq, List.length_range]

/-- **Per-consumer FIFO**: the positions a receiver reads are strictly increasing, so each receiver
sees values in linearisation order; **per-producer FIFO**: a producer's successful sends appear in
`sent` in its program order. -/
theorem mpmc_per_thread_order {c : Nat} {x : Int} {s0 : State} (h : init c x = some s0) (as : List Action) :
    let s := run s0 as
    (∀ t, (posOf t s.taken).Pairwise (· < ·)) ∧
    (∀ t, sendsOf t s.log ++ pendingS (s.pc t) = sentOf t s) ∧ s.sentT.length = s.sent.length := by
  obtain ⟨_, d⟩ := dlv_run h as
  exact ⟨d.order, d.prod, d.lenT⟩

/-- **close_then_drain**: a `Recv` reports "closed" only when the queue is closed and every
linearised item has been claimed by a receiver (or its own context was cancelled). -/
theorem mpmc_close_then_drain {c : Nat} {x : Int} {s0 s' : State} (h : init c x = some s0)
    (as : List Action) (a : Action) (t : Tid) (e : act (run s0 as) a = some s')
    (hlog : s'.log = (run s0 as).log ++ [.recvRet t none]) :
    (run s0 as).cancelled t = true ∨
    ((run s0 as).done = true ∧ (run s0 as).tail = (run s0 as).head ∧ absQ (run s0 as) = []) :=
  recv_false_drained (inv_run h as) e hlog

theorem sends_frozen_step {s s' : State} {a : Action} (hi : Inv s) (hd : s.done = true)
    (e : act s a = some s') : ∀ t, sendsOf t s'.log = sendsOf t s.log := by
  cases eff_act e with
  | quiet q => exact q.sends
  | enq t pos v hpc hh e2 => have := hi.doneDeep hd t; simp [hpc, sDeep] at this
  | deq t pos hpc hh e2 => subst e2; intro _; rfl
  | read t pos hpc e2 => subst e2; intro _; rfl
  | rret t v hpc h1 h2 h3 => intro t'; simp [sendsOf, h3, sendVal]
  | sret t v hpc h1 h2 h3 => have := hi.doneDeep hd t; simp [hpc, sDeep] at this

/-- **send_after_close_fails**: once closed, no action list linearises another send, no `Send`
returns true any more (each thread's list of successful sends is frozen), the queue stays closed,
and no goroutine ever sends on a closed wake-up channel (`panicked` never changes at all). -/
theorem mpmc_send_after_close_fails {s : State} (hi : Inv s) (hd : s.done = true) (as : List Action) :
    (run s as).sent = s.sent ∧ (run s as).done = true ∧
    (∀ t, sendsOf t (run s as).log = sendsOf t s.log) ∧ (run s as).panicked = s.panicked := by
  have := run_induction
    (P := fun r => Inv r ∧ r.done = true ∧ r.sent = s.sent ∧ (∀ t, sendsOf t r.log = sendsOf t s.log) ∧
      r.panicked = s.panicked)
    (s := s) ⟨hi, hd, rfl, fun _ => rfl, rfl⟩
    (fun r a r' ⟨h1, h2, h3, h4, h5⟩ e => by
      obtain ⟨c1, c2, c3, _⟩ := closed_no_enq h1 h2 e
      exact ⟨inv_act h1 e, c2, by rw [c1, h3], fun t => by rw [sends_frozen_step h1 h2 e t, h4 t],
        by rw [c3, h5]⟩) as
  exact ⟨this.2.2.1, this.2.1, this.2.2.2.1, this.2.2.2.2⟩

/-- the send-on-closed-channel panic is unreachable from a fresh queue -/
theorem mpmc_no_panic {c : Nat} {x : Int} {s0 : State} (h : init c x = some s0) (as : List Action) :
    (run s0 as).panicked = false := by
  have := run_induction (P := fun r => Inv r ∧ r.panicked = false) (s := s0)
    ⟨inv_init h, by unfold init at h; split at h <;> simp at h; subst h; rfl⟩
    (fun r a r' ⟨h1, h2⟩ e => ⟨inv_act h1 e, by rw [panicked_const h1 e, h2]⟩) as
  exact this.2

/-- **Growth preserves the contents**: `extend` (under the write lock, i.e. with no reader inside)
keeps the abstract queue and the physical content list, re-establishes `Inv`, and renumbers the
ring from 0. -/
theorem mpmc_growth_preserves_contents {s : State} (hi : Inv s) (hc : s.cs = []) (n : Nat) :
    Inv (extend s n) ∧ absQ (extend s n) = absQ s ∧ content (extend s n) = content s ∧
    (s.cap < n → (extend s n).tail = 0 ∧ (extend s n).cap = n) := by
  refine ⟨inv_extend hi hc n, ?_, ?_, ?_⟩
  · have := extend_abs s n; simp only [absQ, this.1, this.2.1]
  · unfold extend
    split
    · rfl
    · rename_i hn
      have hb := bound hi
      have hht := hi.ht
      simp only [content, Nat.sub_zero, Nat.zero_add]
      apply List.map_congr_left
      intro i hi2
      have hi2 : i < s.head - s.tail := by simpa using hi2
      have : i % n = i := Nat.mod_eq_of_lt (by omega)
      simp [this, hi2]
  · intro hn
    unfold extend
    rw [if_neg (by omega)]
    exact ⟨rfl, rfl⟩

/-! ### wake-ups (safety form) -/

/-- FULL statement (container level, any number of consumers): whenever a receiver is parked (or
about to park) on `empty` while the item at the tail is published, a wake-up is pending — a token
in `empty`, the channel closed, or a sender between its publish and its signal. -/
def FullWakeup : Prop :=
  ∀ (c : Nat) (x : Int) (s0 : State), init c x = some s0 → ∀ (as : List Action) (t : Tid),
    (run s0 as).pc t = .rPark → itemReady (run s0 as) → wakePending (run s0 as)

/-- PROVED PART: the statement holds for every action list in which a single thread calls `Recv`
— the discipline of the pipeline (`tie_consumer_discipline`) — with any number of producers,
closers and growers. -/
theorem wakeup_partial {c : Nat} {x : Int} {s0 : State} (h : init c x = some s0) (cons : Tid)
    (as : List Action) (hsc : SingleConsumer cons as) (t : Tid)
    (hp : (run s0 as).pc t = .rPark) (hr : itemReady (run s0 as)) : wakePending (run s0 as) := by
  obtain ⟨_, w⟩ := winv_run as (inv_init h) (winv_init h) hsc
  have : t = cons := w.single t (by simp [hp, isRecvPc])
  subst this
  exact w.wake hp hr

/-- threads that never act keep their program point -/
theorem pc_untouched (as : List Action) (s : State) (t : Tid) (h : ∀ a ∈ as, actor a ≠ t) :
    (run s as).pc t = s.pc t := by
  induction as generalizing s with
  | nil => rfl
  | cons a as ih =>
    have h' : ∀ a ∈ as, actor a ≠ t := fun b m => h b (List.mem_cons_of_mem _ m)
    simp only [run, runCount]
    cases e : act s a with
    | some s' =>
      have := ih s' h'
      simp only [run] at this
      rw [this]
      exact act_pc_other e t (fun e2 => h a (by simp) e2.symm)
    | none =>
      have := ih s h'
      simp only [run] at this
      exact this

/-- a queue of capacity 4 that may not grow -/
def q4 : State := (init 4 0).get (by decide)

/-- NEGATION WITNESS (two consumers): receivers 1 and 2 both find the queue empty and reach the
park point; senders 3 and 4 each complete a `Send` (the second signal finds the token already
there and is dropped); receiver 1 takes the token and the first item and returns.  Receiver 2 is
parked for good although the second item is published. -/
def lostWakeSchedule : List Action :=
  [.call 1 .recv, .step 1, .step 1,
   .call 2 .recv, .step 2, .step 2,
   .call 3 (.send 101), .step 3, .step 3, .step 3, .step 3, .step 3, .step 3,
   .call 4 (.send 102), .step 4, .step 4, .step 4, .step 4, .step 4, .step 4,
   .step 1, .step 1, .step 1, .step 1, .step 1, .step 1, .step 1, .step 1]

set_option maxRecDepth 100000 in
theorem lost_wakeup_witness :
    let s := run q4 lostWakeSchedule
    (runCount q4 lostWakeSchedule).2 = 0 ∧            -- every action of the schedule was enabled
    s.pc 2 = .rPark ∧ stepT s 2 = none ∧             -- receiver 2 is parked and cannot move
    s.pc 1 = .idle ∧ s.pc 3 = .idle ∧ s.pc 4 = .idle ∧
    s.tail = 1 ∧ s.head = 2 ∧ (s.slots (s.tail % s.cap)).seq = s.tail + 1 ∧   -- an item is published
    s.emptyTok = false ∧ s.done = false ∧
    s.log.getLast? = some (.recvRet 1 (some 101)) ∧ absQ s = [102] := by
  decide

theorem not_fullWakeup : ¬ FullWakeup := by
  intro hf
  have w := lost_wakeup_witness
  simp only at w
  obtain ⟨_, w2, _, w1, w3, w4, w5, w6, w7, w8, w9, _⟩ := w
  have hr : itemReady (run q4 lostWakeSchedule) := by
    refine ⟨by omega, ?_⟩
    simp only [sq]; exact w7
  rcases hf 4 0 q4 (Option.some_get _).symm lostWakeSchedule 2 w2 hr with h | h | ⟨t, v, h⟩
  · rw [w8] at h; exact absurd h (by decide)
  · rw [w9] at h; exact absurd h (by decide)
  · by_cases e1 : t = 1
    · subst e1; rw [w1] at h; exact Pc.noConfusion h
    by_cases e2 : t = 2
    · subst e2; rw [w2] at h; exact Pc.noConfusion h
    by_cases e3 : t = 3
    · subst e3; rw [w3] at h; exact Pc.noConfusion h
    by_cases e4 : t = 4
    · subst e4; rw [w4] at h; exact Pc.noConfusion h
    have : (run q4 lostWakeSchedule).pc t = q4.pc t := by
      apply pc_untouched
      intro a m
      simp only [lostWakeSchedule, List.mem_cons, List.mem_nil_iff, or_false] at m
      rcases m with m | m | m | m | m | m | m | m | m | m | m | m | m | m | m | m | m | m | m | m | m | m | m | m | m | m | m | m <;>
        (subst m; intro e5; simp only [actor] at e5; first | exact e1 e5.symm | exact e2 e5.symm | exact e3 e5.symm | exact e4 e5.symm)
    rw [this] at h
    exact Pc.noConfusion h

/-- with unlimited extensions (the pipeline's configuration, `tie_consumer_discipline`) no sender
ever parks on `full`: the sender-side wake-up question does not arise -/
theorem pipeline_senders_never_park {c : Nat} {x : Int} {s0 : State} (h : init c x = some s0) (hx : x < 0)
    (as : List Action) : ∀ t v, (run s0 as).pc t ≠ .sPark v := by
  have := run_induction (P := fun r => r.exts < 0 ∧ ∀ t v, r.pc t ≠ .sPark v) (s := s0)
    (by
      unfold init at h; split at h <;> simp at h; subst h
      exact ⟨hx, fun t v => by simp⟩)
    (fun r a r' ⟨h1, h2⟩ e => by
      have hx := fun n => extend_abs r n
      have hxe : ∀ n, (extend r n).exts = r.exts := fun n => by unfold extend; split <;> rfl
      constructor
      · cases a with
        | call t op => simp only [act] at e; split at e <;> simp at e; subst e; exact h1
        | cancel t => simp only [act] at e; simp at e; subst e; exact h1
        | ctxWake t =>
          simp only [act] at e
          split at e
          · split at e <;> simp at e <;> subst e <;> exact h1
          · simp at e
        | step t =>
          simp only [act] at e
          unfold stepT at e
          split at e
          all_goals (try dsimp only at e)
          all_goals (repeat' (split at e))
          all_goals (try (simp at e; done))
          all_goals (simp only [Option.some.injEq] at e; subst e)
          all_goals (try (simp [addLog, setPc, enter, leave, setSlot, hxe]; done))
          all_goals (first | exact h1 | (show (extend _ _).exts < 0; rw [hxe]; exact h1) | (split <;> simp [addLog, setPc, leave, hxe, h1]))
      · intro t' v'
        by_cases ht : t' = actor a
        · subst ht
          cases a with
          | call t op =>
            simp only [act] at e; split at e <;> simp at e; subst e
            cases op <;> simp [addLog, setPc, upd, startPc, actor]
          | cancel t => simp only [act] at e; simp at e; subst e; exact h2 _ _
          | ctxWake t =>
            simp only [act] at e
            split at e
            · split at e <;> simp at e <;> subst e <;> simp [setPc, upd, actor]
            · simp at e
          | step t =>
            simp only [act, actor] at e ⊢
            unfold stepT at e
            split at e
            all_goals (try dsimp only at e)
            all_goals (repeat' (split at e))
            all_goals (try (simp at e; done))
            all_goals (simp only [Option.some.injEq] at e; subst e)
            all_goals (try (simp [addLog, setPc, enter, leave, setSlot, upd, hx]; done))
            all_goals (try (split <;> simp [addLog, setPc, leave, upd, hx]; done))
            -- the only way to sPark: extensions exhausted, impossible with exts < 0
            all_goals (rename_i hn; simp at hn; omega)
        · rw [act_pc_other e t' ht]; exact h2 t' v') as
  exact this.2

end MpmcTheorems

section MoreMpmc
open OpenFGAVerif.Model.Mpmc OpenFGAVerif.Proofs.Mpmc

/-- the same defect on the `full` side (two producers, extensions exhausted): senders 3 and 4 find
the ring full and reach the park point; receivers 5 and 6 each take an item (the second signal is
dropped); sender 3 takes the token and completes; sender 4 stays parked although a slot is free.
Not reachable in the pipeline (`pipeline_senders_never_park`). -/
def lostWakeSendersSchedule : List Action :=
  [.call 1 (.send 11), .step 1, .step 1, .step 1, .step 1, .step 1, .step 1,
   .call 2 (.send 12), .step 2, .step 2, .step 2, .step 2, .step 2, .step 2,
   .call 3 (.send 13), .step 3, .step 3,          -- full → sPark
   .call 4 (.send 14), .step 4, .step 4,          -- full → sPark
   .call 5 .recv, .step 5, .step 5, .step 5, .step 5, .step 5, .step 5, .step 5,
   .call 6 .recv, .step 6, .step 6, .step 6, .step 6, .step 6, .step 6, .step 6,
   .step 3, .step 3, .step 3, .step 3, .step 3, .step 3, .step 3]

def q2 : State := (init 2 0).get (by decide)

set_option maxRecDepth 100000 in
theorem lost_wakeup_witness_senders :
    let s := run q2 lostWakeSendersSchedule
    (runCount q2 lostWakeSendersSchedule).2 = 0 ∧
    s.pc 4 = .sPark 14 ∧ stepT s 4 = none ∧ s.pc 3 = .idle ∧
    s.head - s.tail = 1 ∧ s.cap = 2 ∧ (s.slots (s.head % s.cap)).seq = s.head ∧  -- a slot is writable
    s.fullTok = false ∧ s.done = false ∧ absQ s = [13] := by
  decide

/-! ### non-vacuity -/

/-- the hypotheses of the run-level theorems are satisfiable, and a run with growth, parking, a
wake-up and close behaves as a FIFO channel -/
def demoSchedule : List Action :=
  [.call 9 .recv, .step 9, .step 9,                                              -- consumer parks
   .call 1 (.send 1), .step 1, .step 1, .step 1, .step 1, .step 1, .step 1,
   .call 2 (.send 2), .step 2, .step 2, .step 2, .step 2, .step 2, .step 2,
   .call 3 (.send 3), .step 3, .step 3, .step 3, .step 3,                        -- full: extend 2→4, relock
   .step 3, .step 3, .step 3, .step 3, .step 3,
   .step 9, .step 9, .step 9, .step 9, .step 9, .step 9, .step 9, .step 9,       -- woken, receives 1
   .call 7 .close, .step 7,
   .call 4 (.send 4), .step 4,                                                   -- fails
   .call 9 .recv, .step 9, .step 9, .step 9, .step 9, .step 9, .step 9, .step 9,
   .call 9 .recv, .step 9, .step 9, .step 9, .step 9, .step 9, .step 9, .step 9,
   .call 9 .recv, .step 9, .step 9]                                              -- closed and drained

def qGrow : State := (init 2 (-1)).get (by decide)

set_option maxRecDepth 100000 in
example :
    let s := run qGrow demoSchedule
    (runCount qGrow demoSchedule).2 = 0 ∧ s.cap = 4 ∧ s.sent = [1, 2, 3] ∧
    retsOf 9 s.log = [1, 2, 3] ∧ s.log.getLast? = some (.recvRet 9 none) ∧
    sendsOf 4 s.log = [] ∧ s.done = true ∧ SingleConsumer 9 demoSchedule := by
  refine ⟨by decide, by decide, by decide, by decide, by decide, by decide, by decide, ?_⟩
  intro t m
  simp only [demoSchedule, List.mem_cons, List.mem_nil_iff, or_false] at m
  simp at m
  exact m

example : ∃ c x s0, init c x = some s0 := ⟨2, -1, qGrow, (Option.some_get _).symm⟩
example : init 3 0 = none ∧ init 1 0 = none ∧ init 0 0 = none := by decide

end MoreMpmc

section Mono
open OpenFGAVerif.Model.Mpmc OpenFGAVerif.Proofs.Mpmc

theorem run_append (s : State) (as bs : List Action) : run s (as ++ bs) = run (run s as) bs := by
  induction as generalizing s with
  | nil => rfl
  | cons a as ih =>
    simp only [List.cons_append, run, runCount]
    cases e : act s a with
    | some s' => have := ih s'; simp only [run] at this; exact this
    | none => have := ih s; simp only [run] at this; exact this

theorem sent_prefix_step {s s' : State} {a : Action} (e : act s a = some s') :
    ∃ l, s'.sent = s.sent ++ l := by
  cases eff_act e with
  | quiet q => exact ⟨[], by rw [q.sent]; simp⟩
  | enq t pos v hpc hh e2 => subst e2; exact ⟨[v], rfl⟩
  | deq t pos hpc hh e2 => subst e2; exact ⟨[], by simp [setPc]⟩
  | read t pos hpc e2 => subst e2; exact ⟨[], by simp [setPc]⟩
  | rret t v hpc h1 h2 h3 => exact ⟨[], by rw [h1.2.1]; simp⟩
  | sret t v hpc h1 h2 h3 => exact ⟨[], by rw [h1.2.1]; simp⟩

/-- **Real-time order.**  The linearisation order only grows at its end: whatever has been
linearised after `as` stays a prefix after any continuation `bs`.  Hence a `Send` that returned
true before another `Send` was called (its head CAS lies in `as`, the other's in `bs`) is ordered
before it in `sent`, and by `mpmc_refines_fifo` is claimed by a receiver first. -/
theorem mpmc_sent_prefix (s : State) (as bs : List Action) :
    ∃ l, (run s (as ++ bs)).sent = (run s as).sent ++ l := by
  rw [run_append]
  generalize run s as = r
  induction bs generalizing r with
  | nil => exact ⟨[], by simp [run, runCount]⟩
  | cons b bs ih =>
    simp only [run, runCount]
    cases e : act r b with
    | some r' =>
      obtain ⟨l1, h1⟩ := sent_prefix_step e
      obtain ⟨l2, h2⟩ := ih r'
      simp only [run] at h2
      exact ⟨l1 ++ l2, by rw [h2, h1, List.append_assoc]⟩
    | none =>
      have := ih r
      simp only [run] at this
      exact this

end Mono

section Pow2
open OpenFGAVerif.Model.Mpmc OpenFGAVerif.Proofs.Mpmc

theorem and_half (a b : Nat) : (a &&& b) / 2 = a / 2 &&& b / 2 := by
  have := @Nat.shiftRight_and_distrib 1 a b
  simpa [Nat.shiftRight_eq_div_pow] using this

/-- the bit trick of `isPowerOfTwo` is sound -/
theorem pow2_of_bits : ∀ n : Nat, 0 < n → n &&& (n - 1) = 0 → ∃ k, n = 2 ^ k := by
  intro n
  induction n using Nat.strongRecOn with
  | _ n ih =>
    intro hpos hand
    by_cases h1 : n = 1
    · exact ⟨0, by simp [h1]⟩
    · have hn2 : 2 ≤ n := by omega
      rcases Nat.mod_two_eq_zero_or_one n with he | ho
      · have hm : 0 < n / 2 := by omega
        have hh := and_half n (n - 1)
        rw [hand] at hh
        have : (n - 1) / 2 = n / 2 - 1 := by omega
        rw [this] at hh
        obtain ⟨k, hk⟩ := ih (n / 2) (by omega) hm (by simpa using hh.symm)
        exact ⟨k + 1, by rw [Nat.pow_succ, ← hk]; omega⟩
      · exfalso
        have hh := and_half n (n - 1)
        rw [hand] at hh
        have : (n - 1) / 2 = n / 2 := by omega
        rw [this, Nat.and_self] at hh
        omega

theorem pow2_of_isPow2 {n : Nat} (h : isPow2 n = true) : ∃ k, n = 2 ^ k := by
  simp only [isPow2, Bool.and_eq_true, decide_eq_true_eq, beq_iff_eq] at h
  exact pow2_of_bits n h.1 h.2

theorem cap_step {s s' : State} {a : Action} (e : act s a = some s') :
    s'.cap = s.cap ∨ s'.cap = s.cap * 2 ∨ isPow2 s'.cap = true := by
  have hx : ∀ n, (extend s n).cap = s.cap ∨ (extend s n).cap = n := fun n => by
    unfold extend; split <;> simp
  cases a with
  | call t op => simp only [act] at e; split at e <;> simp at e; subst e; simp [addLog, setPc]
  | cancel t => simp only [act] at e; simp at e; subst e; simp
  | ctxWake t =>
    simp only [act] at e
    split at e
    · split at e <;> simp at e <;> subst e <;> simp [setPc]
    · simp at e
  | step t =>
    simp only [act] at e
    unfold stepT at e
    split at e
    all_goals (try dsimp only at e)
    all_goals (repeat' (split at e))
    all_goals (try (simp at e; done))
    all_goals (simp only [Option.some.injEq] at e; subst e)
    all_goals (try (simp [addLog, setPc, enter, leave, setSlot]; done))
    · -- sExt with extend
      rcases hx (s.cap * 2) with h | h
      · exact Or.inl (by simp [setPc, h])
      · exact Or.inr (Or.inl (by simp [setPc, h]))
    · -- gEnter with extend
      rename_i n _ hp _
      rcases hx n with h | h
      · exact Or.inl h
      · right; right
        show isPow2 (extend s n).cap = true
        rw [h]; simpa using hp

/-- the capacity is always a power of two, so the code's `value & (capacity-1)` is the model's
`value % cap` (`mask_eq_mod`) -/
theorem mpmc_cap_pow2 {c : Nat} {x : Int} {s0 : State} (h : init c x = some s0) (as : List Action) :
    ∃ k, (run s0 as).cap = 2 ^ k ∧ ∀ pos, pos &&& ((run s0 as).cap - 1) = pos % (run s0 as).cap := by
  have := run_induction (P := fun r => ∃ k, r.cap = 2 ^ k) (s := s0)
    (by
      unfold init at h
      split at h
      · simp at h
      · rename_i hc
        simp at hc
        simp at h; subst h
        exact pow2_of_isPow2 hc.2)
    (fun r a r' ⟨k, hk⟩ e => by
      rcases cap_step e with h1 | h1 | h1
      · exact ⟨k, by rw [h1, hk]⟩
      · exact ⟨k + 1, by rw [h1, hk, Nat.pow_succ]⟩
      · exact pow2_of_isPow2 h1) as
  obtain ⟨k, hk⟩ := this
  exact ⟨k, hk, fun pos => by rw [hk]; exact mask_eq_mod pos k⟩

end Pow2

section History
open OpenFGAVerif.Model.Mpmc OpenFGAVerif.Proofs.Mpmc

/-- the linearisation labels of the enabled actions of a schedule, in order -/
def trace (s : State) : List Action → List (Option Val)
  | [] => []
  | a :: as =>
    match act s a with
    | some s' => (match lin s a with | some l => [l] | none => []) ++ trace s' as
    | none => trace s as

/-- sequential FIFO queue: `some v` enqueues, `none` dequeues (illegal on an empty queue) -/
def fifoStep (q : List Val) : Option Val → Option (List Val)
  | some v => some (q ++ [v])
  | none => match q with
    | [] => none
    | _ :: q' => some q'

def fifoRun (q : List Val) : List (Option Val) → Option (List Val)
  | [] => some q
  | l :: ls => (fifoStep q l).bind (fun q' => fifoRun q' ls)

theorem history_from {s : State} (hi : Inv s) (as : List Action) :
    fifoRun (absQ s) (trace s as) = some (absQ (run s as)) := by
  induction as generalizing s with
  | nil => rfl
  | cons a as ih =>
    simp only [trace, run, runCount]
    cases e : act s a with
    | none =>
      have := ih hi
      simp only [run] at this
      exact this
    | some s' =>
      have hr := refines_fifo hi e
      have := ih (inv_act hi e)
      simp only [run] at this
      cases hl : lin s a with
      | none =>
        rw [hl] at hr
        simp only [List.nil_append]
        rw [← hr]; exact this
      | some l =>
        rw [hl] at hr
        cases l with
        | some v =>
          simp only [List.cons_append, List.nil_append, fifoRun, fifoStep, Option.bind]
          rw [← hr]; exact this
        | none =>
          obtain ⟨t, pos, _, _, hq⟩ := hr
          simp only [List.cons_append, List.nil_append, fifoRun, fifoStep, hq, Option.bind]
          exact this

/-- **The history of linearisation points is a legal sequential FIFO history**: replaying the
head-CAS / tail-CAS labels of any schedule on a sequential FIFO queue never dequeues from an empty
queue and ends in exactly the abstract content of the real ring. -/
theorem mpmc_history_is_fifo {c : Nat} {x : Int} {s0 : State} (h : init c x = some s0) (as : List Action) :
    fifoRun [] (trace s0 as) = some (absQ (run s0 as)) := by
  have h0 : absQ s0 = [] := by
    unfold init at h
    split at h <;> simp at h
    subst h; rfl
  have := history_from (inv_init h) as
  rw [h0] at this
  exact this

end History

/-! ## mpsc.Accumulator -/
section MpscTheorems
open OpenFGAVerif.Model.Mpsc OpenFGAVerif.Proofs.Mpsc

/-- **CAS-then-link invariant** after every action list: every node below `head` is linked or has
exactly its sender about to link it, nothing is linked behind `head` except the end sentinel
(and only after `Close` swapped `head` to nil), one closer at most. -/
theorem mpsc_invariant (as : List Action) : MInv (run init as) := minv_run as

/-- **FIFO, no loss, no duplication**: the consumer has received exactly the first `tail` values in
linearisation (head-CAS) order; the unreachable "followed a link to an unpublished node" state is
never entered. -/
theorem mpsc_fifo (as : List Action) :
    (run init as).recvd = (run init as).vals.take (run init as).tail ∧
    (run init as).tail ≤ (run init as).vals.length ∧ (run init as).bad = false :=
  ⟨(minv_run as).got, (recvd_prefix (minv_run as)).2, (minv_run as).ok⟩

/-- **Per-producer FIFO**: each producer's successful sends are linearised in its program order. -/
theorem mpsc_per_producer_order (as : List Action) (t : Tid) :
    sendsOf t (run init as).log ++ pendingS ((run init as).pc t) = sentOf t (run init as) :=
  (pinv_run as).2 t

/-- **Close sentinel**: the end sentinel sits behind the last linearised node only; `Recv` reports
"closed" only after `head` is nil and everything linearised has been received. -/
theorem mpsc_close_sentinel (as : List Action) (t : Tid) (s' : State)
    (hpc : (run init as).pc t = .vLoad) (e : stepT (run init as) t = some s')
    (hl : s'.log = (run init as).log ++ [.recvRet t none]) :
    (run init as).headNil = true ∧ (run init as).recvd = (run init as).vals :=
  recv_false_drained (minv_run as) hpc e hl

/-- **Sends after close fail**: once `Close` has swapped `head` to nil nothing is linearised. -/
theorem mpsc_send_after_close_fails {s s' : State} {a : Action} (hd : s.headNil = true)
    (e : act s a = some s') : s'.vals = s.vals ∧ s'.headNil = true :=
  ⟨(closed_no_enq hd e).1, (closed_no_enq hd e).2.1⟩

/-- **Single-consumer wake-up invariant**: whenever the consumer is parked (or about to park) and
its next node is linked, a wake-up is pending: a token in `signal`, `done` closed, a sender between
link and signal, or `Close` between linking the sentinel and closing `done`. -/
theorem mpsc_wakeup (cons : Tid) (as : List Action) (hsc : SingleConsumer cons as)
    (hp : (run init as).pc cons = .vPark) (hn : (run init as).nxt (run init as).tail ≠ .nil) :
    wakePending (run init as) :=
  (winv_run as winv_init hsc).wake hp hn

/-- non-vacuity: two producers, a racing close, a parked consumer that is woken and drains -/
def mpscDemo : List Action :=
  [.call 9 .recv, .step 9,                                   -- parks
   .call 1 (.send 1), .step 1, .step 1,                      -- CAS done, not linked yet
   .call 2 (.send 2), .step 2, .step 2, .step 2, .step 2,    -- 2 complete: token (consumer still sees nil)
   .step 9, .step 9,                                         -- wakes, sees nil, parks again
   .step 1, .step 1,                                         -- 1 links and signals
   .step 9, .step 9,                                         -- receives 1
   .call 7 .close, .step 7, .step 7, .step 7, .step 7,
   .call 3 (.send 3), .step 3,                               -- fails
   .call 9 .recv, .step 9, .call 9 .recv, .step 9]           -- 2, then closed

set_option maxRecDepth 100000 in
example :
    let s := run init mpscDemo
    (runCount init mpscDemo).2 = 0 ∧ s.vals = [1, 2] ∧ s.recvd = [1, 2] ∧
    s.log.getLast? = some (.recvRet 9 none) ∧ s.headNil = true := by decide

end MpscTheorems
end OpenFGAVerif.C22
