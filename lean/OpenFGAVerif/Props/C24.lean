/-
C24 — Cache keys distinguish every answer-relevant input.

Model: `Model.Keys` (byte-level model of pkg/storage/cache/keys and of every key function),
data regenerated from the Go source: `Gen.Keys`.  Proof modules: `Proofs.KeysCodec` (decoder,
prefix-freeness), `Proofs.KeysSort` (orders, sorting), `Proofs.KeysPb` (PbValue: explicit stack =
recursion, field permutation, injectivity), `Proofs.KeysTuple` (Tuple.WriteTo, sort.Sort(TupleKeys),
InvariantCacheKey).

What is proved, for ALL inputs:
 * the tagged length-prefixed encoding is a prefix code (a decoder inverts it with any bytes
   following), so every key — a concatenation of fields — is uniquely decodable;
 * every key site found in the source is injective in each argument it encodes; sites that share
   a cache have disjoint key spaces;
 * the pre-digest bytes of InvariantCacheKey / ReadKey / ReadUsersetTuplesKey /
   ReadStartingWithUserKey determine their inputs up to the order of filter lists, context fields
   and contextual tuples, and conversely reordering those gives the same bytes;
 * hence every key is injective up to a collision of the 64-bit digest (an explicit hypothesis).

Partial / notes (kept at full strength as `Full…` with a proved negation):
 * `FullTuplePermInvariant` is FALSE: `TupleKeys.Less` answers `true` on equal sort keys, so two
   contextual tuples with the same (object, relation, user, condition name) but different
   condition contexts are encoded in input order.  This is NOT a violation of the property: such
   duplicates are order-sensitive inputs (the combined reader answers from the first one, Check's
   answer changes with their order), so the two orders are semantically different and must not share
   a key.  (First recorded as finding F24, withdrawn as a false alarm: DESIGN.md §11.3.)
 * `ReadStartingWithUserKey` gives nil and empty `ObjectIDs` the same key (`rswu_nil_empty_same_key`,
   F7): equal by the key function's own contract and for the SQL stores; the memory store differs.
-/
import OpenFGAVerif.Proofs.KeysTuple
import OpenFGAVerif.Props.ReqClone

namespace OpenFGAVerif.C24
open OpenFGAVerif.Model.Keys OpenFGAVerif.Proofs.KeysCodec OpenFGAVerif.Proofs.KeysSort
open OpenFGAVerif.Proofs.KeysPb OpenFGAVerif.Proofs.KeysTuple

/-! ## Ties to the regenerated data -/

/-- The value tags of the source are pairwise different (a collision breaks this `decide`). -/
theorem tie_tags_ok : TagsOK genTags := by decide

theorem tie_tags_nodup : genTags.toList.Nodup := by decide

/-- the const block consists of exactly these twelve names, in this order -/
theorem tie_tag_names : Gen.Keys.tagTable.map (·.1) =
    ["tagNull", "tagByte", "tagBool", "tagUint64", "tagString", "tagBytes", "tagArray", "tagMap", "tagPair",
     "tagKey", "tagValue", "tagUnset"] := by decide

/-! The hand-written model mirrors these statements; any edit of the Go functions breaks the tie. -/

def exp_encodeStmts : List (String × List String) :=
  [("Bytes", ["return kb.data"]),
   ("EncodeArray", ["kb.EncodeArrayHeader(len(a))", "for _, e := range a { e.WriteTo(kb) }"]),
   ("EncodeArrayHeader", ["kb.data = append(kb.data, tagArray)", "kb.data = binary.AppendUvarint(kb.data, uint64(n))"]),
   ("EncodeBool", ["var value byte", "if b { value = 1 }", "kb.data = append(kb.data, tagBool, value)"]),
   ("EncodeByte", ["kb.data = append(kb.data, tagByte, b)"]),
   ("EncodeBytes", ["kb.data = append(kb.data, tagBytes)", "kb.data = binary.AppendUvarint(kb.data, uint64(len(b)))", "kb.data = append(kb.data, b...)"]),
   ("EncodeMap", ["kb.EncodeMapHeader(len(entries))", "for _, e := range entries { e.Key.WriteTo(kb) e.Value.WriteTo(kb) }"]),
   ("EncodeMapHeader", ["kb.data = append(kb.data, tagMap)", "kb.data = binary.AppendUvarint(kb.data, uint64(n))"]),
   ("EncodeNull", ["kb.data = append(kb.data, tagNull)"]),
   ("EncodePair", ["kb.data = append(kb.data, tagPair, tagKey)", "key.WriteTo(kb)", "kb.data = append(kb.data, tagValue)", "value.WriteTo(kb)"]),
   ("EncodeString", ["kb.data = append(kb.data, tagString)", "kb.data = binary.AppendUvarint(kb.data, uint64(len(s)))", "kb.data = append(kb.data, s...)"]),
   ("EncodeUint64", ["kb.data = binary.LittleEndian.AppendUint64(append(kb.data, tagUint64), i)"]),
   ("EncodeUnset", ["kb.data = append(kb.data, tagUnset)"]),
   ("Key", ["return Key{string(kb.data)}"]),
   ("Reset", ["kb.data = kb.data[:0]"]),
   ("Serialize", ["value.WriteTo(kb)"]),
   ("Write", ["kb.data = append(kb.data, b...)", "return len(b), nil"]),
   ("WriteByte", ["kb.data = append(kb.data, b)", "return nil"]),
   ("WriteString", ["kb.data = append(kb.data, s...)", "return len(s), nil"])]

def exp_keyBytesStmts : List String :=
  ["return unsafe.Slice(unsafe.StringData(k.data), len(k.data))"]

def exp_typeWriteTo : List (String × List String) :=
  [("Array", ["kb.EncodeArray(a)"]),
   ("Bool", ["kb.EncodeBool(bool(b))"]),
   ("Byte", ["kb.EncodeByte(byte(b))"]),
   ("Bytes", ["kb.EncodeBytes(b)"]),
   ("Map", ["kb.EncodeMap(m)"]),
   ("Null", ["kb.EncodeNull()"]),
   ("Pair", ["kb.EncodePair(p.Key, p.Value)"]),
   ("String", ["kb.EncodeString(string(s))"]),
   ("Uint64", ["kb.EncodeUint64(uint64(i))"]),
   ("Unset", ["kb.EncodeUnset()"])]

def exp_pbPrelude : List String :=
  ["if pbvalue == nil { kb.EncodeUnset() return }", "type frame struct { key string hasKey bool value *structpb.Value }", "var stack []frame", "stack = append(stack, frame{value: (*structpb.Value)(pbvalue)})", "for len(stack) > 0"]

def exp_pbLoopHead : List String :=
  ["pos := len(stack) - 1", "current := stack[pos]", "stack = stack[:pos]", "if current.hasKey { kb.EncodeString(current.key) }", "switch val := current.value.GetKind().(type)"]

def exp_pbCases : List (String × List String) :=
  [("*structpb.Value_BoolValue", ["kb.EncodeBool(val.BoolValue)"]),
   ("*structpb.Value_NullValue", ["kb.EncodeNull()"]),
   ("*structpb.Value_StringValue", ["kb.EncodeString(val.StringValue)"]),
   ("*structpb.Value_NumberValue", ["kb.EncodeUint64(math.Float64bits(val.NumberValue))"]),
   ("nil", ["kb.EncodeUnset()"]),
   ("*structpb.Value_ListValue", ["vals := val.ListValue.GetValues()", "kb.EncodeArrayHeader(len(vals))", "for i := len(vals) - 1; i >= 0; i-- { stack = append(stack, frame{value: vals[i]}) }"]),
   ("*structpb.Value_StructValue", ["fields := val.StructValue.GetFields()", "keys := make([]string, 0, len(fields))", "for k := range fields { keys = append(keys, k) }", "slices.Sort(keys)", "kb.EncodeMapHeader(len(keys))", "for i := len(keys) - 1; i >= 0; i-- { stack = append(stack, frame{ key: keys[i], hasKey: true, value: fields[keys[i]], }) }"])]

def exp_tupleWriteTo : List String :=
  ["tk := (*openfgav1.TupleKey)(t)", "kb.EncodeString(tk.GetObject())", "kb.EncodeString(tk.GetRelation())", "kb.EncodeString(tk.GetUser())", "if condition := tk.GetCondition(); condition != nil { kb.EncodeString(condition.GetName()) kb.Serialize((*PbValue)(structpb.NewStructValue(condition.GetContext()))) }"]

def exp_helperStmts : List (String × List String) :=
  [("copyObjectRelations", ["if len(rels) == 0 || len(a) == 0 { return 0 }", "values := make([]string, len(rels))", "for i, rel := range rels { subject := rel.GetObject() if relation := rel.GetRelation(); relation != \"\" { subject = tuple.ToObjectRelationString(subject, relation) } values[i] = subject }", "slices.Sort(values)", "var w int", "for i, e := range values { if i >= len(a) { break } a[i] = keys.String(e) w++ }", "return w"]),
   ("copyConditions", ["if len(conditions) == 0 || len(a) == 0 { return 0 }", "sorted := make([]string, len(conditions))", "copy(sorted, conditions)", "slices.Sort(sorted)", "var w int", "for _, c := range sorted { if w >= len(a) { break } a[w] = keys.String(c) w++ }", "return w"]),
   ("copyRelationReferences", ["if len(refs) == 0 || len(a) == 0 { return 0 }", "parts := make([]string, 0, len(refs))", "for _, ref := range refs { var part string switch r := ref.GetRelationOrWildcard().(type) { case *openfgav1.RelationReference_Relation: part = ref.GetType() + \"#\" + r.Relation case *openfgav1.RelationReference_Wildcard: part = ref.GetType() + \":*\" default: part = ref.GetType() } parts = append(parts, part) }", "slices.Sort(parts)", "var w int", "for i, part := range parts { if i >= len(a) { break } a[i] = keys.String(part) w++ }", "return w"]),
   ("ReadStartingWithUserKey", ["builder := keys.GetBuilder()", "defer builder.Close()", "a := make([]keys.Serializable, len(filter.UserFilter))", "n := copyObjectRelations(a, filter.UserFilter)", "builder.EncodeArray(a[:n])", "a = nil", "if filter.ObjectIDs != nil { values := filter.ObjectIDs.Values() a = make([]keys.Serializable, len(values)) if len(values) > 0 { for i, oid := range values { a[i] = keys.String(oid) } } }", "builder.EncodeArray(a)", "a = make([]keys.Serializable, len(filter.Conditions))", "n = copyConditions(a, filter.Conditions)", "builder.EncodeArray(a[:n])", "digest := keys.GetDigest()", "digest.Write(builder.Bytes())", "suffix := digest.Sum64()", "digest.Close()", "builder.Reset()", "builder.EncodeString(PrefixIteratorCache)", "builder.EncodeString(\"RSWU\")", "builder.EncodeString(store)", "builder.EncodeString(filter.ObjectType)", "builder.EncodeString(filter.Relation)", "builder.EncodeUint64(suffix)", "return builder.Key()"]),
   ("ReadUsersetTuplesKey", ["builder := keys.GetBuilder()", "defer builder.Close()", "a := make(keys.Array, len(filter.AllowedUserTypeRestrictions))", "n := copyRelationReferences(a, filter.AllowedUserTypeRestrictions)", "builder.EncodeArray(a[:n])", "a = make(keys.Array, len(filter.Conditions))", "n = copyConditions(a, filter.Conditions)", "builder.EncodeArray(a[:n])", "digest := keys.GetDigest()", "digest.Write(builder.Bytes())", "suffix := digest.Sum64()", "digest.Close()", "builder.Reset()", "builder.EncodeString(PrefixIteratorCache)", "builder.EncodeString(\"RUT\")", "builder.EncodeString(store)", "builder.EncodeString(filter.Object)", "builder.EncodeString(filter.Relation)", "builder.EncodeUint64(suffix)", "return builder.Key()"]),
   ("ReadKey", ["builder := keys.GetBuilder()", "defer builder.Close()", "a := make(keys.Array, len(filter.Conditions))", "n := copyConditions(a, filter.Conditions)", "builder.EncodeArray(a[:n])", "digest := keys.GetDigest()", "digest.Write(builder.Bytes())", "suffix := digest.Sum64()", "digest.Close()", "builder.Reset()", "builder.EncodeString(PrefixIteratorCache)", "builder.EncodeString(\"READ\")", "builder.EncodeString(store)", "builder.EncodeString(filter.Object)", "builder.EncodeString(filter.Relation)", "builder.EncodeString(filter.User)", "builder.EncodeUint64(suffix)", "return builder.Key()"]),
   ("InvariantCacheKey", ["builder := keys.GetBuilder()", "defer builder.Close()", "builder.EncodeString(storeID)", "builder.EncodeString(modelID)", "sortedTuples := make(tuple.TupleKeys, len(contextualTuples))", "copy(sortedTuples, contextualTuples)", "sort.Sort(sortedTuples)", "ts := make([]keys.Serializable, len(sortedTuples))", "for i, t := range sortedTuples { ts[i] = (*keys.Tuple)(t) }", "builder.EncodeArray(ts)", "value := (*keys.PbValue)(structpb.NewStructValue(ctx))", "builder.Serialize(value)", "digest := keys.GetDigest()", "defer digest.Close()", "digest.Write(builder.Bytes())", "return digest.Sum64()"]),
   ("TupleKeys.Less", ["if tk[i].GetObject() != tk[j].GetObject() { return tk[i].GetObject() < tk[j].GetObject() }", "if tk[i].GetRelation() != tk[j].GetRelation() { return tk[i].GetRelation() < tk[j].GetRelation() }", "if tk[i].GetUser() != tk[j].GetUser() { return tk[i].GetUser() < tk[j].GetUser() }", "cond1 := tk[i].GetCondition()", "cond2 := tk[j].GetCondition()", "if (cond1 != nil || cond2 != nil) && cond1.GetName() != cond2.GetName() { return cond1.GetName() < cond2.GetName() }", "return true"]),
   ("ToObjectRelationString", ["return object + \"#\" + relation"]),
   ("Digest.NewDigest", ["return &Digest{ inner: xxhash.NewWithSeed(Seed), }"]),
   ("Digest.Reset", ["hasher.inner.ResetWithSeed(Seed)"]),
   ("Digest.Write", ["return hasher.inner.Write(b)"]),
   ("Digest.Sum64", ["return hasher.inner.Sum64()"]),
   ("generateCacheKeyFromCheck", ["checkTupleKey := check.GetTupleKey()", "key := storage.CheckCacheKey( storeID, checkTupleKey.GetObject(), checkTupleKey.GetRelation(), checkTupleKey.GetUser(), storage.InvariantCacheKey( storeID, authModelID, check.GetContext(), check.GetContextualTuples().GetTupleKeys()..., ), )", "return key"])]

set_option maxRecDepth 200000 in
/-- `Builder.Encode*`: tag, uvarint length, payload — as modelled by `enc`. -/
theorem tie_builder_methods : Gen.Keys.encodeStmts = exp_encodeStmts ∧ Gen.Keys.keyBytesStmts = exp_keyBytesStmts := by
  decide

set_option maxRecDepth 200000 in
theorem tie_type_writeTo : Gen.Keys.typeWriteTo = exp_typeWriteTo := by decide

set_option maxRecDepth 200000 in
/-- `PbValue.WriteTo`: nil guard, LIFO stack, key before value, kind table, keys sorted before the
map header, children pushed in reverse — as modelled by `run`. -/
theorem tie_pbvalue_writeTo : Gen.Keys.pbPrelude = exp_pbPrelude ∧ Gen.Keys.pbLoopHead = exp_pbLoopHead ∧
    Gen.Keys.pbCases = exp_pbCases := by decide

set_option maxRecDepth 200000 in
/-- `Tuple.WriteTo`: three strings, then name + context iff the condition is non-nil. -/
theorem tie_tuple_writeTo : Gen.Keys.tupleWriteTo = exp_tupleWriteTo := by decide

set_option maxRecDepth 200000 in
/-- helpers and composite key functions modelled by hand (`copy*`, `Read*Key`, `InvariantCacheKey`,
`TupleKeys.Less`, `ToObjectRelationString`, `Digest`, `generateCacheKeyFromCheck`). -/
theorem tie_helpers : Gen.Keys.helperStmts = exp_helperStmts := by decide

/-! ## 1. The builder grammar is a prefix code -/

/-- `binary.AppendUvarint` is inverted by `decUvarint`, whatever follows. -/
theorem uvarint_roundtrip (n : Nat) (rest : Bytes) : decUvarint (uvarint n ++ rest) = some (n, rest) :=
  decUvarint_uvarint n rest

/-- no uvarint code is a prefix of another one -/
theorem uvarint_prefix_free (a b : Nat) (r1 r2 : Bytes) (h : uvarint a ++ r1 = uvarint b ++ r2) : a = b ∧ r1 = r2 :=
  Proofs.KeysCodec.uvarint_prefix_free a b r1 r2 h

example : uvarint 127 = [127] ∧ uvarint 128 = [128, 1] ∧ uvarint 16383 = [255, 127] ∧ uvarint 16384 = [128, 128, 1] := by
  decide

/-- **decode ∘ encode = id** for every value of the grammar string / bytes / byte / bool / uint64 /
null / unset / array / map / pair, with the tags of the current source and any bytes following. -/
theorem decode_encode (v : Val) (rest : Bytes) : decode genTags (enc genTags v ++ rest) = some (v, rest) :=
  Proofs.KeysCodec.decode_encode genTags tie_tags_ok v rest

/-- **Prefix-freeness** of the encoding. -/
theorem encode_prefix_free (v w : Val) (r1 r2 : Bytes) (h : enc genTags v ++ r1 = enc genTags w ++ r2) :
    v = w ∧ r1 = r2 :=
  Proofs.KeysCodec.encode_prefix_free genTags tie_tags_ok v w r1 r2 h

/-- `enc` is injective. -/
theorem enc_injective (v w : Val) (h : enc genTags v = enc genTags w) : v = w :=
  Proofs.KeysCodec.enc_injective genTags tie_tags_ok v w h

/-- **Keys are uniquely decodable**: a key is a concatenation of fields, and decoding it returns
exactly those fields. -/
theorem key_unique_decoding (fields : List Val) : decodeAll genTags (encList genTags fields) = some fields :=
  decodeAll_encList genTags tie_tags_ok fields

theorem fields_injective (xs ys : List Val) (h : encList genTags xs = encList genTags ys) : xs = ys :=
  encList_injective genTags tie_tags_ok xs ys h

/-- non-vacuity: a nested value with separator-like bytes, decoded back with trailing bytes -/
example : decode genTags (enc genTags (.arr [.str [0, 4, 255], .map [(.str [], .pair (.u64 7) .unset)], .bytes [6]]) ++ [4, 0])
    = some (.arr [.str [0, 4, 255], .map [(.str [], .pair (.u64 7) .unset)], .bytes [6]], [4, 0]) :=
  decode_encode _ _

/-- the classic confusions are all distinguished: "ab"+"c" vs "a"+"bc", null / false / byte 0 / unset,
array vs map vs two fields -/
example : encList genTags [.str [97, 98], .str [99]] ≠ encList genTags [.str [97], .str [98, 99]] := by
  intro h; have := fields_injective _ _ h; simp at this
example : enc genTags .null ≠ enc genTags (.bool false) ∧ enc genTags (.bool false) ≠ enc genTags (.byte 0) ∧
    enc genTags .null ≠ enc genTags .unset := by decide

/-! ## 2. PbValue -/

/-- **Explicit stack = recursion.** -/
theorem stack_eq_recursive (v : PbV) (h : pbWF v = true) : pbWriteTo genTags v = enc genTags (pbToVal v) :=
  Proofs.KeysPb.stack_eq_recursive genTags v h

/-- **perm_invariant**: the order in which a struct's fields are listed does not change the bytes. -/
theorem perm_invariant (fs gs : List (Bytes × PbV)) (h : fs.Perm gs) (hn : (keysOf fs).Nodup) :
    enc genTags (pbToVal (.struct fs)) = enc genTags (pbToVal (.struct gs)) :=
  pb_perm_invariant genTags fs gs h hn

/-- **Equal bytes ⇔ equal normal forms** (fields sorted at every level).  Numbers are compared by
their float64 bits (±0, NaN payloads differ: a miss, never a wrong hit). -/
theorem pb_distinct (v w : PbV) : enc genTags (pbToVal v) = enc genTags (pbToVal w) ↔ pbNorm v = pbNorm w :=
  pb_bytes_eq_iff genTags tie_tags_ok v w

example : pbWF (.struct [([98], .num 5), ([97], .list [.null, .struct [([0], .unset)]])]) = true := by decide

example : pbWriteTo genTags (.struct [([98], .num 5), ([97], .list [.null, .struct []])]) =
    pbWriteTo genTags (.struct [([97], .list [.null, .struct []]), ([98], .num 5)]) := by decide

/-- +0.0 and -0.0 are different keys (bits 0 vs 2^63) -/
example : enc genTags (pbToVal (.num 0)) ≠ enc genTags (pbToVal (.num 9223372036854775808)) := by decide

/-! ## 3. Tuple.WriteTo -/

/-- standalone injectivity (up to the order of condition-context fields) -/
theorem tuple_injective (t1 t2 : Tup) (h : encTuple genTags t1 = encTuple genTags t2) : tupNorm t1 = tupNorm t2 :=
  encTuple_injective genTags tie_tags_ok t1 t2 h

/-- **A tuple followed by other fields** is read back correctly unless the following fields start
with a string and then a map — exactly the shape of the optional condition suffix. -/
theorem tuple_then_fields (t1 t2 : Tup) (r1 r2 : List Val) (h1 : NoCondStart r1) (h2 : NoCondStart r2)
    (h : encTuple genTags t1 ++ encList genTags r1 = encTuple genTags t2 ++ encList genTags r2) :
    tupNorm t1 = tupNorm t2 ∧ r1 = r2 := by
  rw [encTuple_eq, encTuple_eq, ← encList_append, ← encList_append] at h
  have := tupleVals_prefix t1 t2 r1 r2 h1 h2 (fields_injective _ _ h)
  exact ⟨(tupleVals_eq_iff t1 t2).mp this.1, this.2⟩

/-- … and that ambiguity is real for a generic use of `Tuple` (it does not occur at the only call
site, `InvariantCacheKey`, where a tuple is followed by another tuple or by the context map). -/
theorem tuple_ambiguity (o r u name : Bytes) (ctx : List (Bytes × PbV)) :
    encTuple genTags ⟨o, r, u, none⟩ ++ (encStr genTags name ++ enc genTags (pbToVal (.struct ctx))) =
      encTuple genTags ⟨o, r, u, some ⟨name, ctx⟩⟩ :=
  tuple_suffix_ambiguity genTags o r u name ctx

/-! ## 4. Key functions -/

/-! ### 4a. plain sites: a fixed sequence of EncodeString / EncodeUint64 -/

def lSP : Bytes := [83, 80]
def lIC : Bytes := [73, 67]
def lCC : Bytes := [67, 67]
def lIQ : Bytes := [73, 81]
def lUSERSET : Bytes := [85, 83, 69, 82, 83, 69, 84]
def lTTU : Bytes := [84, 84, 85]
def lV2 : Bytes := [86, 50]
def lINFINITE : Bytes := [73, 78, 70, 73, 78, 73, 84, 69]

/-- field order of every plain key site, as the model expects it -/
def expectedLayouts : List (String × List Field) :=
  [("changelogCacheKey", [.lit lCC, .str "storeID"]),
   ("invalidIteratorCacheKey", [.lit lIQ, .str "storeID"]),
   ("invalidIteratorByObjectRelationCacheKey", [.lit lIQ, .lit [79, 82], .str "storeID", .str "object", .str "relation"]),
   ("invalidIteratorByUserObjectTypeCacheKey", [.lit lIQ, .lit [85, 79, 84], .str "storeID", .str "user", .str "objectType"]),
   ("checkCacheKey", [.lit lSP, .str "storeID", .str "object", .str "relation", .str "user", .u64 "invariant"]),
   ("edgeCacheKey", [.lit [69, 68, 71, 69], .str "req.GetStoreID()", .str "req.GetAuthorizationModelID()",
      .str "req.GetTupleKey().GetObject()", .str "req.GetTupleKey().GetUser()", .str "edge.GetRelationDefinition()",
      .u64 "uint64(edge.GetEdgeType())", .str "edge.GetTo().GetUniqueLabel()", .str "edge.GetTuplesetRelation()",
      .u64 "req.GetInvariantCacheKey()"]),
   ("createUsersetPlanKey", [.lit lV2, .lit lUSERSET, .str "req.GetStoreID()", .str "req.GetAuthorizationModelID()",
      .str "req.GetObjectType()", .str "req.GetTupleKey().GetRelation()", .str "req.GetUserType()", .str "userset"]),
   ("createRecursiveUsersetPlanKey", [.lit lV2, .lit lUSERSET, .str "req.GetStoreID()", .str "req.GetAuthorizationModelID()",
      .str "userset", .str "req.GetUserType()", .lit lINFINITE]),
   ("createRecursiveTTUPlanKey", [.lit lV2, .lit lTTU, .str "req.GetStoreID()", .str "req.GetAuthorizationModelID()",
      .str "tuplesetRelation", .str "req.GetUserType()", .lit lINFINITE]),
   ("createTTUPlanKey", [.lit lV2, .lit lTTU, .str "req.GetStoreID()", .str "req.GetAuthorizationModelID()",
      .str "req.GetObjectType()", .str "req.GetTupleKey().GetRelation()", .str "req.GetUserType()",
      .str "tuplesetRelation", .str "computedRelation"]),
   ("ctxTuplesByUserKey", [.str "userID", .str "relation", .str "objectType"]),
   ("ctxTuplesByObjectKey", [.str "objectID", .str "relation", .str "userType"]),
   ("checkTTU_TTU", [.lit lTTU, .str "req.GetStoreID()", .str "req.GetAuthorizationModelID()", .str "objectType",
      .str "relation", .str "userType", .str "tuplesetRelation", .str "computedRelation"]),
   ("modelgraphCacheKey", [.lit [87, 71], .str "storeID", .str "modelID"]),
   ("modelCacheKey", [.lit [77, 79, 68, 69, 76], .str "storeID", .str "modelID"]),
   ("memoizedTypesystemResolverFunc_TS", [.lit [84, 83], .str "storeID", .str "modelID"])]

/-- plain sites of the source, parsed -/
def genPlainLayouts : List (String × List Field) :=
  Gen.Keys.keySites.filterMap (fun s => (parseLayout s.2).map (fun L => (s.1, L)))

/-- **Field order of every plain key function** in the source = the order the theorems are about. -/
theorem tie_plain_layouts : genPlainLayouts = expectedLayouts := by decide

/-- every `keys.GetBuilder()` site of the non-test code is covered: 16 plain sites + 5 composite
ones (InvariantCacheKey, the three iterator keys, the legacy userset planner key with its raw prefix) -/
theorem tie_site_count : Gen.Keys.builderSiteCount = 21 ∧ Gen.Keys.keySites.length = 21 ∧
    (Gen.Keys.keySites.filter (fun s => (parseLayout s.2).isNone)).map (·.1) =
      ["invariantCacheKey", "readStartingWithUserKey", "readUsersetTuplesKey", "readKey", "checkDirectUsersetTuples_USERSET"] := by
  decide

/-- second phase (after `Reset`) of the iterator keys, and the hashed first phase -/
def readKeyLayout : List Field :=
  [.lit lIC, .lit [82, 69, 65, 68], .str "store", .str "filter.Object", .str "filter.Relation", .str "filter.User", .u64 "suffix"]
def rutKeyLayout : List Field :=
  [.lit lIC, .lit [82, 85, 84], .str "store", .str "filter.Object", .str "filter.Relation", .u64 "suffix"]
def rswuKeyLayout : List Field :=
  [.lit lIC, .lit [82, 83, 87, 85], .str "store", .str "filter.ObjectType", .str "filter.Relation", .u64 "suffix"]

theorem tie_iterator_layouts :
    parseLayout (afterReset Gen.Keys.readKeyOps) = some readKeyLayout ∧
    parseLayout (afterReset Gen.Keys.readUsersetTuplesKeyOps) = some rutKeyLayout ∧
    parseLayout (afterReset Gen.Keys.readStartingWithUserKeyOps) = some rswuKeyLayout ∧
    (beforeBytes Gen.Keys.readKeyOps).map (·.1) = ["arr"] ∧
    (beforeBytes Gen.Keys.readUsersetTuplesKeyOps).map (·.1) = ["arr", "arr"] ∧
    (beforeBytes Gen.Keys.readStartingWithUserKeyOps).map (·.1) = ["arr", "arr", "arr"] ∧
    (beforeBytes Gen.Keys.invariantCacheKeyOps) = [("str", "storeID", []), ("str", "modelID", []), ("arr", "ts", []), ("ser", "value", [])] := by
  decide

/-- **The store id is part of every key** except the two request-local contextual-tuple indexes
(maps owned by one request); reused by C16. -/
theorem tie_store_in_every_key :
    Gen.Keys.storeArg.filter (fun p => p.2 = "") = [("ctxTuplesByUserKey", ""), ("ctxTuplesByObjectKey", "")] ∧
    Gen.Keys.keySites.all (fun s =>
      match Gen.Keys.storeArg.lookup s.1 with
      | some a => a = "" || s.2.any (fun op => op.1 = "str" && op.2.1 = a)
      | none => false) = true := by
  decide

/-- **Every plain key site is injective in every argument it encodes** (and depends on nothing
else): for each site of the source, same site + equal keys ⇒ equal arguments. -/
theorem plain_site_injective (site : String) (L : List Field) (_h : (site, L) ∈ genPlainLayouts) (e1 e2 : Env) :
    encLayout genTags e1 L = encLayout genTags e2 L ↔
      (∀ a, Field.str a ∈ L → e1.str a = e2.str a) ∧ (∀ a, Field.u64 a ∈ L → e1.u64 a = e2.u64 a) :=
  ⟨fun h => ⟨fun a ha => encLayout_injective_str genTags tie_tags_ok e1 e2 L h a ha,
             fun a ha => encLayout_injective_u64 genTags tie_tags_ok e1 e2 L h a ha⟩,
   fun h => encLayout_congr genTags e1 e2 L h.1 h.2⟩

/-- the sub-problem key: every component is recoverable -/
theorem checkCacheKey_injective (s1 o1 r1 u1 s2 o2 r2 u2 : Bytes) (i1 i2 : UInt64) (L : List Field)
    (hL : ("checkCacheKey", L) ∈ genPlainLayouts)
    (h : checkKey genTags L s1 o1 r1 u1 i1 = checkKey genTags L s2 o2 r2 u2 i2) :
    s1 = s2 ∧ o1 = o2 ∧ r1 = r2 ∧ u1 = u2 ∧ i1 = i2 := by
  have hL' : L = [.lit lSP, .str "storeID", .str "object", .str "relation", .str "user", .u64 "invariant"] := by
    rw [tie_plain_layouts] at hL
    simp [expectedLayouts] at hL
    exact hL
  subst hL'
  have := (plain_site_injective "checkCacheKey" _ hL _ _).mp h
  have a1 := this.1 "storeID" (by simp)
  have a2 := this.1 "object" (by simp)
  have a3 := this.1 "relation" (by simp)
  have a4 := this.1 "user" (by simp)
  have a5 := this.2 "invariant" (by simp)
  simp [envOf, List.lookup] at a1 a2 a3 a4 a5
  exact ⟨a1, a2, a3, a4, a5⟩

/-- the keys that live in the shared check / iterator cache -/
def sharedCacheLayouts : List (List Field) :=
  (expectedLayouts.filter (fun p => p.1 ∈ ["changelogCacheKey", "invalidIteratorCacheKey",
    "invalidIteratorByObjectRelationCacheKey", "invalidIteratorByUserObjectTypeCacheKey", "checkCacheKey", "edgeCacheKey"])).map (·.2)
  ++ [readKeyLayout, rutKeyLayout, rswuKeyLayout]

def pairwiseIncompatible : List (List Field) → Bool
  | [] => true
  | L :: Ls => Ls.all (fun M => !compatible L M) && pairwiseIncompatible Ls

/-- **Disjoint key spaces in the shared cache**: a sub-problem key, an edge key, an iterator key of
any of the three kinds, a changelog key and the three invalidation keys can never be equal,
whatever their arguments. -/
theorem shared_cache_disjoint : pairwiseIncompatible sharedCacheLayouts = true := by decide

theorem shared_cache_disjoint_sound (L1 L2 : List Field) (e1 e2 : Env) (h : compatible L1 L2 = false) :
    encLayout genTags e1 L1 ≠ encLayout genTags e2 L2 :=
  layouts_disjoint genTags tie_tags_ok e1 e2 L1 L2 h

/-! ### 4b. filter lists (hashed first phase of the iterator keys) -/

theorem strArr_inj (a b : List Bytes) (h : strArr a = strArr b) : a = b := by
  simp only [strArr, Val.arr.injEq] at h
  exact (List.map_inj_right (fun x y e => by simpa using e)).mp h

theorem sortBytes_eq_iff_perm (a b : List Bytes) : sortBytes a = sortBytes b ↔ a.Perm b :=
  ⟨fun h => (sortBytes_perm a).symm.trans (h ▸ sortBytes_perm b), sortBytes_perm_eq a b⟩

/-- **ReadKey**: the hashed bytes are equal iff the condition lists are permutations of each other. -/
theorem readKeyPre_eq_iff (c1 c2 : List Bytes) : readKeyPre genTags c1 = readKeyPre genTags c2 ↔ c1.Perm c2 := by
  unfold readKeyPre condArr
  constructor
  · intro h
    exact (sortBytes_eq_iff_perm _ _).mp (strArr_inj _ _ (enc_injective _ _ h))
  · intro h
    rw [(sortBytes_eq_iff_perm _ _).mpr h]

/-- `Conditions = [""]` ("only unconditioned tuples") is not `Conditions = nil` ("any") -/
example : readKeyPre genTags [[]] ≠ readKeyPre genTags [] := by decide

/-- **ReadUsersetTuplesKey**: equal iff the rendered restrictions (`type`, `type#rel`, `type:*`) and
the conditions agree as multisets. -/
theorem rutPre_eq_iff (r1 r2 : List RelRef) (c1 c2 : List Bytes) :
    rutPre genTags r1 c1 = rutPre genTags r2 c2 ↔ (r1.map refString).Perm (r2.map refString) ∧ c1.Perm c2 := by
  unfold rutPre condArr
  constructor
  · intro h
    obtain ⟨e1, e2⟩ := encode_prefix_free _ _ _ _ h
    exact ⟨(sortBytes_eq_iff_perm _ _).mp (strArr_inj _ _ e1),
           (sortBytes_eq_iff_perm _ _).mp (strArr_inj _ _ (enc_injective _ _ e2))⟩
  · intro h
    rw [(sortBytes_eq_iff_perm _ _).mpr h.1, (sortBytes_eq_iff_perm _ _).mpr h.2]

/-- **ReadStartingWithUserKey**: equal iff the rendered user filter and the conditions agree as
multisets and the object-id sets have the same elements — where a nil set and an empty set count as
the same (F7). -/
theorem rswuPre_eq_iff (u1 u2 : List (Bytes × Bytes)) (o1 o2 : Option (List Bytes)) (c1 c2 : List Bytes) :
    rswuPre genTags u1 o1 c1 = rswuPre genTags u2 o2 c2 ↔
      (u1.map subjectString).Perm (u2.map subjectString) ∧ o1.getD [] = o2.getD [] ∧ c1.Perm c2 := by
  unfold rswuPre condArr
  constructor
  · intro h
    obtain ⟨e1, h⟩ := encode_prefix_free _ _ _ _ h
    obtain ⟨e2, e3⟩ := encode_prefix_free _ _ _ _ h
    exact ⟨(sortBytes_eq_iff_perm _ _).mp (strArr_inj _ _ e1), strArr_inj _ _ e2,
           (sortBytes_eq_iff_perm _ _).mp (strArr_inj _ _ (enc_injective _ _ e3))⟩
  · intro h
    rw [(sortBytes_eq_iff_perm _ _).mpr h.1, h.2.1, (sortBytes_eq_iff_perm _ _).mpr h.2.2]

/-- **F7**: nil and empty `ObjectIDs` share a key.  The key function's tests and the SQL stores treat
them as the same query ("no object-id filter"); the memory store returns nothing for the empty set. -/
theorem rswu_nil_empty_same_key (u : List (Bytes × Bytes)) (c : List Bytes) :
    rswuPre genTags u none c = rswuPre genTags u (some []) c := rfl

/-- rendering of a user filter entry is injective when the object contains no '#' -/
theorem split_at_sep (sep : UInt8) : ∀ (a a' b b' : Bytes), sep ∉ a → sep ∉ a' →
    a ++ sep :: b = a' ++ sep :: b' → a = a' ∧ b = b' := by
  intro a
  induction a with
  | nil =>
    intro a' b b' _ h2 h
    cases a' with
    | nil => simpa using h
    | cons x xs =>
      simp only [List.nil_append, List.cons_append, List.cons.injEq] at h
      exact absurd (by simp [h.1]) h2
  | cons y ys ih =>
    intro a' b b' h1 h2 h
    cases a' with
    | nil =>
      simp only [List.nil_append, List.cons_append, List.cons.injEq] at h
      exact absurd (by simp [h.1]) h1
    | cons x xs =>
      simp only [List.cons_append, List.cons.injEq] at h
      have := ih xs b b' (fun m => h1 (by simp [m])) (fun m => h2 (by simp [m])) h.2
      exact ⟨by rw [h.1, this.1], this.2⟩

theorem subjectString_injective (a b : Bytes × Bytes) (ha : (35 : UInt8) ∉ a.1) (hb : (35 : UInt8) ∉ b.1)
    (h : subjectString a = subjectString b) : a = b := by
  obtain ⟨ao, ar⟩ := a
  obtain ⟨bo, br⟩ := b
  unfold subjectString at h
  simp only at ha hb h
  by_cases h1 : ar = [] <;> by_cases h2 : br = [] <;> simp only [h1, h2, if_true, if_false] at h
  · simp [h, h1, h2]
  · exfalso; apply ha; rw [h]; simp
  · exfalso; apply hb; rw [← h]; simp
  · have := split_at_sep 35 ao bo ar br ha hb (by simpa using h)
    simp [this.1, this.2]

theorem sep_mismatch (x y : UInt8) (hxy : x ≠ y) : ∀ (a a' b b' : Bytes), x ∉ a' → y ∉ a →
    a ++ x :: b = a' ++ y :: b' → False := by
  intro a
  induction a with
  | nil =>
    intro a' b b' h1 _ h
    cases a' with
    | nil => simp at h; exact hxy h.1
    | cons c cs => simp at h; exact h1 (by simp [h.1])
  | cons c cs ih =>
    intro a' b b' h1 h2 h
    cases a' with
    | nil => simp at h; exact h2 (by simp [h.1])
    | cons d ds =>
      simp at h
      exact ih ds b b' (fun m => h1 (by simp [m])) (fun m => h2 (by simp [m])) h.2

/-- the three shapes of a relation reference -/
def refKind (r : RelRef) : Nat := if r.kind = 1 then 1 else if r.kind = 2 then 2 else 0

/-- **Rendering of type restrictions is injective** for type names without '#' and ':' (all valid
type names): same rendered string ⇒ same type, same shape, and same relation for `type#relation`. -/
theorem refString_injective (a b : RelRef) (ha1 : (35 : UInt8) ∉ a.type) (ha2 : (58 : UInt8) ∉ a.type)
    (hb1 : (35 : UInt8) ∉ b.type) (hb2 : (58 : UInt8) ∉ b.type) (h : refString a = refString b) :
    a.type = b.type ∧ refKind a = refKind b ∧ (refKind a = 1 → a.relation = b.relation) := by
  unfold refString at h
  unfold refKind
  by_cases ka1 : a.kind = 1 <;> by_cases kb1 : b.kind = 1
  · simp only [ka1, kb1, if_true] at h
    have := split_at_sep 35 a.type b.type a.relation b.relation ha1 hb1 (by simpa using h)
    simp [ka1, kb1, this.1, this.2]
  · by_cases kb2 : b.kind = 2
    · simp only [ka1, kb1, kb2, if_true, if_false] at h
      exact absurd (by simpa using h) (sep_mismatch 35 58 (by decide) a.type b.type a.relation [42] hb1 ha2)
    · simp only [ka1, kb1, kb2, if_true, if_false] at h
      exact absurd (by rw [← h]; simp) hb1
  · by_cases ka2 : a.kind = 2
    · simp only [ka1, kb1, ka2, if_true, if_false] at h
      exact absurd (by simpa using h.symm) (sep_mismatch 35 58 (by decide) b.type a.type b.relation [42] ha1 hb2)
    · simp only [ka1, kb1, ka2, if_true, if_false] at h
      exact absurd (by rw [h]; simp) ha1
  · by_cases ka2 : a.kind = 2 <;> by_cases kb2 : b.kind = 2
    · simp only [ka1, kb1, ka2, kb2, if_true, if_false] at h ⊢
      have := List.append_cancel_right h
      simp [this]
    · simp only [ka1, kb1, ka2, kb2, if_true, if_false] at h
      exact absurd (by rw [← h]; simp) hb2
    · simp only [ka1, kb1, ka2, kb2, if_true, if_false] at h
      exact absurd (by rw [h]; simp) ha2
    · simp only [ka1, kb1, ka2, kb2, if_true, if_false] at h ⊢
      simp [h]

/-! ### 4c. InvariantCacheKey -/

/-- **The hashed bytes determine store, model, contextual tuples and context.** -/
theorem invariant_injective (srt : List Tup → List Tup)
    (s1 m1 : Bytes) (c1 : List (Bytes × PbV)) (ts1 : List Tup) (s2 m2 : Bytes) (c2 : List (Bytes × PbV)) (ts2 : List Tup)
    (h : invariantPre genTags srt s1 m1 c1 ts1 = invariantPre genTags srt s2 m2 c2 ts2) :
    s1 = s2 ∧ m1 = m2 ∧ (srt ts1).map tupNorm = (srt ts2).map tupNorm ∧ pbNorm (.struct c1) = pbNorm (.struct c2) :=
  invariantPre_injective genTags tie_tags_ok srt s1 m1 c1 ts1 s2 m2 c2 ts2 h

/-- `sort.Sort(TupleKeys)` as modelled (insertion sort with `Less`) satisfies the sort contract. -/
theorem go_sort_contract : SortContract (goSort tupleLess) := goSort_contract

/-- **perm_invariant for contextual tuples and context fields — partial**: needs pairwise
different sort keys (object, relation, user, condition name). -/
theorem invariant_perm_invariant_partial (s m : Bytes) (c1 c2 : List (Bytes × PbV)) (ts1 ts2 : List Tup)
    (hp : ts1.Perm ts2) (hd : KeysDistinct ts1) (hc : c1.Perm c2) (hcn : (keysOf c1).Nodup) :
    invariantPre genTags (goSort tupleLess) s m c1 ts1 = invariantPre genTags (goSort tupleLess) s m c2 ts2 :=
  Proofs.KeysTuple.invariant_perm_invariant_partial genTags _ goSort_contract s m c1 c2 ts1 ts2 hp hd hc hcn

/-- the full statement: ANY reordering of the contextual tuples gives the same hashed bytes -/
def FullTuplePermInvariant : Prop :=
  ∀ (s m : Bytes) (c : List (Bytes × PbV)) (ts1 ts2 : List Tup), ts1.Perm ts2 →
    invariantPre genTags (goSort tupleLess) s m c ts1 = invariantPre genTags (goSort tupleLess) s m c ts2

def dupA : Tup := ⟨[100], [114], [117], some ⟨[99], [([120], .num 1)]⟩⟩
def dupB : Tup := ⟨[100], [114], [117], some ⟨[99], [([120], .num 2)]⟩⟩

/-- **Negation witness (why the partial theorem needs pairwise different sort keys; not a defect, see the header)**: two contextual tuples with the same object,
relation, user and condition name but different condition contexts are hashed in input order,
because `TupleKeys.Less` returns `true` for both orders (it is not a strict order). -/
theorem not_full_tuple_perm_invariant : ¬ FullTuplePermInvariant := by
  intro hfull
  have h := hfull [] [] [] [dupA, dupB] [dupB, dupA] (List.Perm.swap dupB dupA [])
  have hs1 : goSort tupleLess [dupA, dupB] = [dupB, dupA] := by rfl
  have hs2 : goSort tupleLess [dupB, dupA] = [dupA, dupB] := by rfl
  have := (invariant_injective _ _ _ _ _ _ _ _ _ h).2.2.1
  rw [hs1, hs2] at this
  simp [dupA, dupB, tupNorm, normCond, sortByKey, isort, insertBy, pbNormFields, pbNorm] at this

/-- non-vacuity of the partial theorem: two different tuples, swapped, with a two-field context swapped -/
example : invariantPre genTags (goSort tupleLess) [1] [2] [([97], .null), ([98], .bool true)]
      [⟨[100], [114], [117], none⟩, ⟨[100], [114], [118], some ⟨[99], []⟩⟩] =
    invariantPre genTags (goSort tupleLess) [1] [2] [([98], .bool true), ([97], .null)]
      [⟨[100], [114], [118], some ⟨[99], []⟩⟩, ⟨[100], [114], [117], none⟩] := by
  apply invariant_perm_invariant_partial
  · exact List.Perm.swap _ _ _
  · unfold KeysDistinct; decide
  · exact List.Perm.swap _ _ _
  · decide

/-! ### 4d. whole keys: injective up to the 64-bit digest -/

/-- **Sub-problem / batch de-duplication key** (`CheckCacheKey ∘ InvariantCacheKey`, the wiring of
`generateCacheKeyFromCheck` is pinned by `tie_helpers`): equal keys ⇒ equal store, object,
relation, user and — unless the digest collides on these two inputs — equal model, contextual
tuples and context. -/
theorem subproblem_key_injective_upto_digest (H : Bytes → UInt64) (srt : List Tup → List Tup) (L : List Field)
    (hL : ("checkCacheKey", L) ∈ genPlainLayouts)
    (s1 o1 r1 u1 m1 : Bytes) (c1 : List (Bytes × PbV)) (ts1 : List Tup)
    (s2 o2 r2 u2 m2 : Bytes) (c2 : List (Bytes × PbV)) (ts2 : List Tup)
    (hnc : H (invariantPre genTags srt s1 m1 c1 ts1) = H (invariantPre genTags srt s2 m2 c2 ts2) →
      invariantPre genTags srt s1 m1 c1 ts1 = invariantPre genTags srt s2 m2 c2 ts2)
    (h : checkKey genTags L s1 o1 r1 u1 (invariantKey genTags H srt s1 m1 c1 ts1) =
         checkKey genTags L s2 o2 r2 u2 (invariantKey genTags H srt s2 m2 c2 ts2)) :
    s1 = s2 ∧ o1 = o2 ∧ r1 = r2 ∧ u1 = u2 ∧ m1 = m2 ∧ (srt ts1).map tupNorm = (srt ts2).map tupNorm ∧
      pbNorm (.struct c1) = pbNorm (.struct c2) := by
  obtain ⟨a1, a2, a3, a4, a5⟩ := checkCacheKey_injective _ _ _ _ _ _ _ _ _ _ L hL h
  obtain ⟨_, b2, b3, b4⟩ := invariant_injective srt _ _ _ _ _ _ _ _ (hnc a5)
  exact ⟨a1, a2, a3, a4, b2, b3, b4⟩

/-- **Iterator keys**: equal keys ⇒ equal store and plain filter fields and equal digests of the
hashed filter lists (which determine the lists up to order, `readKeyPre_eq_iff` etc.). -/
theorem readKey_injective_upto_digest (H : Bytes → UInt64)
    (s1 o1 r1 u1 : Bytes) (c1 : List Bytes) (s2 o2 r2 u2 : Bytes) (c2 : List Bytes)
    (h : readKey genTags H readKeyLayout s1 o1 r1 u1 c1 = readKey genTags H readKeyLayout s2 o2 r2 u2 c2) :
    s1 = s2 ∧ o1 = o2 ∧ r1 = r2 ∧ u1 = u2 ∧ H (readKeyPre genTags c1) = H (readKeyPre genTags c2) := by
  unfold readKey at h
  have a1 := encLayout_injective_str genTags tie_tags_ok _ _ _ h "store" (by simp [readKeyLayout])
  have a2 := encLayout_injective_str genTags tie_tags_ok _ _ _ h "filter.Object" (by simp [readKeyLayout])
  have a3 := encLayout_injective_str genTags tie_tags_ok _ _ _ h "filter.Relation" (by simp [readKeyLayout])
  have a4 := encLayout_injective_str genTags tie_tags_ok _ _ _ h "filter.User" (by simp [readKeyLayout])
  have a5 := encLayout_injective_u64 genTags tie_tags_ok _ _ _ h "suffix" (by simp [readKeyLayout])
  simp [envOf, List.lookup] at a1 a2 a3 a4 a5
  exact ⟨a1, a2, a3, a4, a5⟩

theorem rutKey_injective_upto_digest (H : Bytes → UInt64)
    (s1 o1 r1 : Bytes) (f1 : List RelRef) (c1 : List Bytes) (s2 o2 r2 : Bytes) (f2 : List RelRef) (c2 : List Bytes)
    (h : rutKey genTags H rutKeyLayout s1 o1 r1 f1 c1 = rutKey genTags H rutKeyLayout s2 o2 r2 f2 c2) :
    s1 = s2 ∧ o1 = o2 ∧ r1 = r2 ∧ H (rutPre genTags f1 c1) = H (rutPre genTags f2 c2) := by
  unfold rutKey at h
  have a1 := encLayout_injective_str genTags tie_tags_ok _ _ _ h "store" (by simp [rutKeyLayout])
  have a2 := encLayout_injective_str genTags tie_tags_ok _ _ _ h "filter.Object" (by simp [rutKeyLayout])
  have a3 := encLayout_injective_str genTags tie_tags_ok _ _ _ h "filter.Relation" (by simp [rutKeyLayout])
  have a5 := encLayout_injective_u64 genTags tie_tags_ok _ _ _ h "suffix" (by simp [rutKeyLayout])
  simp [envOf, List.lookup] at a1 a2 a3 a5
  exact ⟨a1, a2, a3, a5⟩

theorem rswuKey_injective_upto_digest (H : Bytes → UInt64)
    (s1 t1 r1 : Bytes) (f1 : List (Bytes × Bytes)) (i1 : Option (List Bytes)) (c1 : List Bytes)
    (s2 t2 r2 : Bytes) (f2 : List (Bytes × Bytes)) (i2 : Option (List Bytes)) (c2 : List Bytes)
    (h : rswuKey genTags H rswuKeyLayout s1 t1 r1 f1 i1 c1 = rswuKey genTags H rswuKeyLayout s2 t2 r2 f2 i2 c2) :
    s1 = s2 ∧ t1 = t2 ∧ r1 = r2 ∧ H (rswuPre genTags f1 i1 c1) = H (rswuPre genTags f2 i2 c2) := by
  unfold rswuKey at h
  have a1 := encLayout_injective_str genTags tie_tags_ok _ _ _ h "store" (by simp [rswuKeyLayout])
  have a2 := encLayout_injective_str genTags tie_tags_ok _ _ _ h "filter.ObjectType" (by simp [rswuKeyLayout])
  have a3 := encLayout_injective_str genTags tie_tags_ok _ _ _ h "filter.Relation" (by simp [rswuKeyLayout])
  have a5 := encLayout_injective_u64 genTags tie_tags_ok _ _ _ h "suffix" (by simp [rswuKeyLayout])
  simp [envOf, List.lookup] at a1 a2 a3 a5
  exact ⟨a1, a2, a3, a5⟩

/-- **Permutation invariance of the iterator keys**: reordering the filter lists leaves the key unchanged. -/
theorem iterator_keys_perm_invariant (H : Bytes → UInt64) (s o r u : Bytes)
    (c1 c2 : List Bytes) (hc : c1.Perm c2)
    (f1 f2 : List RelRef) (hf : f1.Perm f2) (uf1 uf2 : List (Bytes × Bytes)) (hu : uf1.Perm uf2) (oids : Option (List Bytes)) :
    readKey genTags H readKeyLayout s o r u c1 = readKey genTags H readKeyLayout s o r u c2 ∧
    rutKey genTags H rutKeyLayout s o r f1 c1 = rutKey genTags H rutKeyLayout s o r f2 c2 ∧
    rswuKey genTags H rswuKeyLayout s o r uf1 oids c1 = rswuKey genTags H rswuKeyLayout s o r uf2 oids c2 := by
  have e1 : readKeyPre genTags c1 = readKeyPre genTags c2 := (readKeyPre_eq_iff c1 c2).mpr hc
  have e2 : rutPre genTags f1 c1 = rutPre genTags f2 c2 := (rutPre_eq_iff f1 f2 c1 c2).mpr ⟨hf.map _, hc⟩
  have e3 : rswuPre genTags uf1 oids c1 = rswuPre genTags uf2 oids c2 :=
    (rswuPre_eq_iff uf1 uf2 oids oids c1 c2).mpr ⟨hu.map _, rfl, hc⟩
  simp [readKey, rutKey, rswuKey, e1, e2, e3]

end OpenFGAVerif.C24
