/-
C25 — Condition evaluation follows the declared CEL semantics.

Model: `Model.Condition` (context merge, parameter typing, missing parameters, the converters of
internal/condition/types with math/big's decimal parsing).  cel-go and the stdlib parsers of
durations / RFC 3339 timestamps / IP addresses are abstract parameters (`Cel`, `Std`): the theorems
hold for every instance, no law about them is assumed.
-/
import OpenFGAVerif.Model.Condition
import OpenFGAVerif.Gen.Condition
namespace OpenFGAVerif.C25
open OpenFGAVerif.Model.Condition

theorem getLast_append {α : Type} (a b : List (String × α)) (k : String) :
    getLast (a ++ b) k = (match getLast b k with | some v => some v | none => getLast a k) := by
  induction a with
  | nil => simp [getLast]; split <;> simp_all
  | cons x xs ih =>
    obtain ⟨k', v⟩ := x
    simp only [List.cons_append, getLast, ih]
    cases hb : getLast b k <;> simp

theorem getLast_mem {α : Type} (l : List (String × α)) (k : String) (v : α) (h : getLast l k = some v) :
    (k, v) ∈ l := by
  induction l with
  | nil => simp [getLast] at h
  | cons x xs ih =>
    obtain ⟨k', v'⟩ := x
    simp only [getLast] at h
    cases hr : getLast xs k with
    | some w => rw [hr] at h; simp at h; subst h; exact List.mem_cons_of_mem _ (ih hr)
    | none =>
      rw [hr] at h; simp at h
      obtain ⟨rfl, rfl⟩ := h
      exact List.mem_cons_self

theorem getLast_isSome_of_mem {α : Type} (l : List (String × α)) (k : String) (v : α) (h : (k, v) ∈ l) :
    (getLast l k).isSome = true := by
  induction l with
  | nil => simp at h
  | cons x xs ih =>
    obtain ⟨k', v'⟩ := x
    simp only [getLast]
    cases hr : getLast xs k with
    | some w => simp
    | none =>
      rcases List.mem_cons.mp h with h | h
      · simp at h; simp [h.1]
      · have := ih h; rw [hr] at this; simp at this

/-! ## the typed environment, declaratively -/

/-- what the CEL activation must contain for name `k`: the merged context's value for `k`,
converted to the type the condition declares for `k`; nothing for undeclared or absent names -/
def specEnv (std : Std) (params : List (String × TypeRef)) (m : Ctx) (k : String) : Option TVal :=
  match getLast params k with
  | none => none
  | some r =>
    match getLast m k with
    | none => none
    | some pv =>
      match decode r with
      | none => none
      | some t =>
        match convert std t (asInterface pv) with
        | .ok tv => some tv
        | _ => none

/-- every declared parameter that is present converts to its declared type -/
def AllConvert (std : Std) (params : List (String × TypeRef)) (m : Ctx) : Prop :=
  ∀ k r pv, (k, r) ∈ params → getLast m k = some pv →
    ∃ t tv, decode r = some t ∧ convert std t (asInterface pv) = .ok tv

/-- every declared parameter is present in the merged context -/
def AllPresent (params : List (String × TypeRef)) (m : Ctx) : Prop :=
  ∀ k r, (k, r) ∈ params → (getLast m k).isSome = true

theorem castLoop_ok_allConvert (std : Std) (m : Ctx) (params : List (String × TypeRef)) (typed)
    (h : castLoop std m params = .ok typed) : AllConvert std params m := by
  induction params generalizing typed with
  | nil => intro k r pv hm; simp at hm
  | cons x xs ih =>
    obtain ⟨k0, r0⟩ := x
    intro k r pv hm hg
    simp only [castLoop] at h
    rcases List.mem_cons.mp hm with hm | hm
    · simp at hm; obtain ⟨rfl, rfl⟩ := hm
      rw [hg] at h; simp only at h
      cases hd : decode r with
      | none => rw [hd] at h; simp at h
      | some t =>
        rw [hd] at h; simp only at h
        cases hc : convert std t (asInterface pv) with
        | typeErr => rw [hc] at h; simp at h
        | panic => rw [hc] at h; simp at h
        | ok tv => exact ⟨t, tv, rfl, hc⟩
    · cases hg0 : getLast m k0 with
      | none => rw [hg0] at h; exact ih _ h k r pv hm hg
      | some pv0 =>
        rw [hg0] at h; simp only at h
        cases hd : decode r0 with
        | none => rw [hd] at h; simp at h
        | some t =>
          rw [hd] at h; simp only at h
          cases hc : convert std t (asInterface pv0) with
          | typeErr => rw [hc] at h; simp at h
          | panic => rw [hc] at h; simp at h
          | ok tv =>
            rw [hc] at h; simp only at h
            cases hl : castLoop std m xs with
            | typeErr => rw [hl] at h; simp at h
            | panic => rw [hl] at h; simp at h
            | ok tvs => exact ih _ hl k r pv hm hg

theorem castLoop_total (std : Std) (m : Ctx) (params : List (String × TypeRef))
    (h : AllConvert std params m) : ∃ typed, castLoop std m params = .ok typed := by
  induction params with
  | nil => exact ⟨[], rfl⟩
  | cons x xs ih =>
    obtain ⟨k0, r0⟩ := x
    have hxs : AllConvert std xs m := fun k r pv hm hg => h k r pv (List.mem_cons_of_mem _ hm) hg
    obtain ⟨tvs, htvs⟩ := ih hxs
    simp only [castLoop]
    cases hg0 : getLast m k0 with
    | none => exact ⟨tvs, htvs⟩
    | some pv0 =>
      obtain ⟨t, tv, hd, hc⟩ := h k0 r0 pv0 List.mem_cons_self hg0
      simp only [hd, hc, htvs]
      exact ⟨_, rfl⟩

/-- the converted map read back: exactly `specEnv` -/
theorem castLoop_env (std : Std) (m : Ctx) (params : List (String × TypeRef)) (typed)
    (h : castLoop std m params = .ok typed) (k : String) :
    getLast typed k = specEnv std params m k := by
  induction params generalizing typed with
  | nil => simp [castLoop] at h; subst h; simp [getLast, specEnv]
  | cons x xs ih =>
    obtain ⟨k0, r0⟩ := x
    have hall := castLoop_ok_allConvert std m _ typed h
    simp only [castLoop] at h
    cases hg0 : getLast m k0 with
    | none =>
      rw [hg0] at h
      rw [ih _ h]
      simp only [specEnv, getLast]
      cases hx : getLast xs k with
      | some r => simp
      | none =>
        by_cases hk : k0 = k
        · subst hk; simp [hg0]
        · simp [hk]
    | some pv0 =>
      rw [hg0] at h; simp only at h
      cases hd : decode r0 with
      | none => rw [hd] at h; simp at h
      | some t =>
        rw [hd] at h; simp only at h
        cases hc : convert std t (asInterface pv0) with
        | typeErr => rw [hc] at h; simp at h
        | panic => rw [hc] at h; simp at h
        | ok tv =>
          rw [hc] at h; simp only at h
          cases hl : castLoop std m xs with
          | typeErr => rw [hl] at h; simp at h
          | panic => rw [hl] at h; simp at h
          | ok tvs =>
            rw [hl] at h; simp at h; subst h
            simp only [getLast, ih _ hl]
            simp only [specEnv, getLast]
            cases hx : getLast xs k with
            | some r =>
              simp only
              -- declared again later: that occurrence was converted too
              cases hgk : getLast m k with
              | none =>
                have hne : ¬ k0 = k := by intro e; subst e; rw [hg0] at hgk; simp at hgk
                simp [hne]
              | some pv =>
                obtain ⟨t', tv', hd', hc'⟩ := hall k r pv (List.mem_cons_of_mem _ (getLast_mem _ _ _ hx)) hgk
                simp [hd', hc']
            | none =>
              simp only
              by_cases hk : k0 = k
              · subst hk; simp [hg0, hd, hc]
              · simp [hk]


/-! ## the merge: stored context wins -/

/-- the context `EvaluateTupleCondition` evaluates over: request fields, then the tuple's stored
fields copied over them -/
def mergedCtx (req tup : Option Ctx) : Ctx := (req.getD []) ++ (tup.getD [])

theorem mergeCtx_eq (req tup : Option Ctx) :
    mergeCtx (req.getD []) tup.toList = mergedCtx req tup := by
  cases req <;> cases tup <;> simp [mergeCtx, mergedCtx]

/-- **stored wins**: a parameter present in the tuple's stored context is seen with the stored value,
whatever the request says -/
theorem stored_wins (req tup : Option Ctx) (t : Ctx) (k : String) (v : PVal)
    (ht : tup = some t) (h : getLast t k = some v) : getLast (mergedCtx req tup) k = some v := by
  subst ht; simp [mergedCtx, getLast_append, h]

/-- a parameter only the request supplies is seen with the request's value -/
theorem request_only (req tup : Option Ctx) (k : String)
    (h : getLast (tup.getD []) k = none) :
    getLast (mergedCtx req tup) k = getLast (req.getD []) k := by
  simp [mergedCtx, getLast_append, h]

/-- the general n-ary merge of `Evaluate`: the last map that binds `k` wins -/
theorem mergeCtx_last_wins (first : Ctx) (rest : List Ctx) (last : Ctx) (k : String) (v : PVal)
    (h : getLast last k = some v) : getLast (mergeCtx first (rest ++ [last])) k = some v := by
  simp [mergeCtx, List.foldl_append, getLast_append, h]

/-! ## CastContextToTypedParameters -/

theorem specEnv_nil (std : Std) (params : List (String × TypeRef)) (k : String) :
    specEnv std params [] k = none := by
  unfold specEnv; cases getLast params k <;> simp [getLast]

theorem castContext_ok (std : Std) (params : List (String × TypeRef)) (m : Ctx) (typed)
    (h : castContext std params m = .ok typed) :
    (m = [] ∨ params ≠ []) ∧ AllConvert std params m ∧ getLast typed = specEnv std params m := by
  unfold castContext at h
  cases m with
  | nil =>
    simp at h; subst h
    refine ⟨Or.inl rfl, ?_, ?_⟩
    · intro k r pv _ hg; simp [getLast] at hg
    · funext k; simp [getLast, specEnv_nil]
  | cons x xs =>
    cases params with
    | nil => simp at h
    | cons p ps =>
      simp at h
      exact ⟨Or.inr (by simp), castLoop_ok_allConvert _ _ _ _ h, funext (castLoop_env _ _ _ _ h)⟩

theorem castContext_total (std : Std) (params : List (String × TypeRef)) (m : Ctx)
    (hne : m = [] ∨ params ≠ []) (h : AllConvert std params m) :
    ∃ typed, castContext std params m = .ok typed := by
  unfold castContext
  cases m with
  | nil => exact ⟨[], by simp⟩
  | cons x xs =>
    cases params with
    | nil => simp at hne
    | cons p ps => simpa using castLoop_total std _ _ h

/-- a type error of the cast is exactly: the context is non-empty and either the condition declares
no parameter or some present declared value does not convert (no panic arises, see `pipeline_no_panic`) -/
theorem castContext_fails_iff (std : Std) (params : List (String × TypeRef)) (m : Ctx) :
    (∀ typed, castContext std params m ≠ .ok typed) ↔ ¬ ((m = [] ∨ params ≠ []) ∧ AllConvert std params m) := by
  constructor
  · intro h ⟨h1, h2⟩
    obtain ⟨typed, ht⟩ := castContext_total std params m h1 h2
    exact h typed ht
  · intro h typed ht
    obtain ⟨h1, h2, _⟩ := castContext_ok std params m typed ht
    exact h ⟨h1, h2⟩

/-! ## Evaluate -/

/-- the declared parameters that the activation does not resolve -/
def missingOf (std : Std) (params : List (String × TypeRef)) (m : Ctx) : List String :=
  (params.map (·.1)).filter (fun k => (specEnv std params m k).isNone)

/-- **Evaluate, characterised**: it succeeds exactly when the condition compiles, the cast succeeds
and CEL returns a bool or unknown; it then reports *every* declared parameter that is absent
(whether or not the expression refers to it) and `ConditionMet = false` for unknown. -/
theorem evaluate_ok_iff {E : Type} (std : Std) (cel : Cel E) (c : Cond E) (first : Ctx) (rest : List Ctx)
    (res : EvalResult) :
    evaluate std cel c first rest = .ok res ↔
      compileOk cel c = true ∧
      (mergeCtx first rest = [] ∨ c.params ≠ []) ∧
      AllConvert std c.params (mergeCtx first rest) ∧
      res.missing = missingOf std c.params (mergeCtx first rest) ∧
      (cel.eval c.expr (specEnv std c.params (mergeCtx first rest)) = .bool res.met ∨
        (cel.eval c.expr (specEnv std c.params (mergeCtx first rest)) = .unknown ∧ res.met = false)) := by
  unfold evaluate
  cases hc : compileOk cel c with
  | false => simp
  | true =>
    simp only [Bool.not_true, Bool.false_eq_true, if_false, true_and]
    cases hcast : castContext std c.params (mergeCtx first rest) with
    | typeErr =>
      simp only
      constructor
      · intro h; simp at h
      · rintro ⟨h1, h2, _⟩
        obtain ⟨typed, ht⟩ := castContext_total std _ _ h1 h2
        rw [ht] at hcast; simp at hcast
    | panic =>
      simp only
      constructor
      · intro h; simp at h
      · rintro ⟨h1, h2, _⟩
        obtain ⟨typed, ht⟩ := castContext_total std _ _ h1 h2
        rw [ht] at hcast; simp at hcast
    | ok typed =>
      obtain ⟨h1, h2, henv⟩ := castContext_ok std _ _ _ hcast
      simp only [henv, missingOf]
      cases hev : cel.eval c.expr (specEnv std c.params (mergeCtx first rest)) with
      | err => simp [h1, h2]
      | other => simp [h1, h2]
      | unknown =>
        simp only
        constructor
        · intro h; simp at h; subst h; simp [h1, h2]
        · rintro ⟨_, _, hm, hr⟩
          cases res; simp at hm hr; simp [hm, hr]
      | bool b =>
        simp only
        constructor
        · intro h; simp at h; subst h; simp [h1, h2]
        · rintro ⟨_, _, hm, hr⟩
          cases res; simp at hm hr; simp [hm, hr]

/-! ## EvaluateTupleCondition -/

theorem specEnv_isSome_present (std : Std) (params : List (String × TypeRef)) (m : Ctx) (k : String)
    (h : (specEnv std params m k).isSome = true) : (getLast m k).isSome = true := by
  unfold specEnv at h
  cases hp : getLast params k with
  | none => rw [hp] at h; simp at h
  | some r =>
    rw [hp] at h; simp only at h
    cases hm : getLast m k with
    | none => rw [hm] at h; simp at h
    | some pv => simp

theorem missingOf_nil_iff (std : Std) (params : List (String × TypeRef)) (m : Ctx)
    (hc : AllConvert std params m) : missingOf std params m = [] ↔ AllPresent params m := by
  unfold missingOf AllPresent
  rw [List.filter_eq_nil_iff]
  constructor
  · intro h k r hm
    have := h k (List.mem_map.mpr ⟨(k, r), hm, rfl⟩)
    simp at this
    exact specEnv_isSome_present std params m k (by
      cases hs : specEnv std params m k with
      | none => exact absurd hs this
      | some _ => rfl)
  · intro h k hk
    obtain ⟨⟨k', r⟩, hm, rfl⟩ := List.mem_map.mp hk
    simp only
    have hsome := getLast_isSome_of_mem params k' r hm
    cases hp : getLast params k' with
    | none => rw [hp] at hsome; simp at hsome
    | some r' =>
      have hm' := getLast_mem _ _ _ hp
      have hpres := h k' r' hm'
      cases hg : getLast m k' with
      | none => rw [hg] at hpres; simp at hpres
      | some pv =>
        obtain ⟨t, tv, hd, hcv⟩ := hc k' r' pv hm' hg
        simp [specEnv, hp, hg, hd, hcv]

/-- **Main theorem.** For a tuple that carries a condition (`condName ≠ ""`),
`EvaluateTupleCondition` returns `(b, nil)` **iff** the condition handed in is the tuple's condition,
it compiles, *every* declared parameter is present in the request context overridden by the stored
context, every present declared value converts to its declared type, and CEL — run on exactly
those converted values — yields `b` (an "unknown" without a missing parameter would be reported as
`false`; cel-go does not produce it, the model does not assume that). -/
theorem evalTuple_spec {E : Type} (std : Std) (cel : Cel E) (condName : String) (tup : Option Ctx)
    (ec : Option (Cond E)) (req : Option Ctx) (b : Bool) (hn : condName ≠ "") :
    evalTuple std cel condName tup ec req = .ok b ↔
      ∃ c, ec = some c ∧ c.name = condName ∧ compileOk cel c = true ∧
        (mergedCtx req tup = [] ∨ c.params ≠ []) ∧
        AllPresent c.params (mergedCtx req tup) ∧
        AllConvert std c.params (mergedCtx req tup) ∧
        (cel.eval c.expr (specEnv std c.params (mergedCtx req tup)) = .bool b ∨
          (cel.eval c.expr (specEnv std c.params (mergedCtx req tup)) = .unknown ∧ b = false)) := by
  unfold evalTuple
  simp only [hn, if_false]
  cases ec with
  | none => simp
  | some c =>
    by_cases hname : condName = c.name
    · subst hname
      simp only [ne_eq, not_true_eq_false, if_false]
      cases hev : evaluate std cel c (req.getD []) tup.toList with
      | error e =>
        simp only
        constructor
        · intro h; simp at h
        · rintro ⟨c', hc', _, h1, h2, h3, h4, h5⟩
          simp at hc'; subst hc'
          have : evaluate std cel c (req.getD []) tup.toList = .ok ⟨b, []⟩ := by
            rw [evaluate_ok_iff, mergeCtx_eq]
            exact ⟨h1, h2, h4, ((missingOf_nil_iff std _ _ h4).mpr h3).symm, h5⟩
          rw [this] at hev; simp at hev
      | ok r =>
        have hr := (evaluate_ok_iff std cel c _ _ r).mp hev
        rw [mergeCtx_eq] at hr
        obtain ⟨h1, h2, h4, hmiss, h5⟩ := hr
        simp only
        by_cases hl : r.missing.length > 0
        · simp only [hl, if_true]
          constructor
          · intro h; simp at h
          · rintro ⟨c', hc', _, _, _, h3, _, _⟩
            simp at hc'; subst hc'
            rw [hmiss, (missingOf_nil_iff std _ _ h4).mpr h3] at hl
            simp at hl
        · simp only [hl, if_false]
          have hnil : r.missing = [] := by
            cases hm : r.missing with
            | nil => rfl
            | cons a as => rw [hm] at hl; simp at hl
          have h3 : AllPresent c.params (mergedCtx req tup) :=
            (missingOf_nil_iff std _ _ h4).mp (by rw [← hmiss, hnil])
          constructor
          · intro h; simp at h; subst h
            exact ⟨c, rfl, rfl, h1, h2, h3, h4, h5⟩
          · rintro ⟨c', hc', _, _, _, _, _, h5'⟩
            simp at hc'; subst hc'
            rcases h5 with h5 | ⟨h5, h5b⟩ <;> rcases h5' with h5' | ⟨h5', h5b'⟩
            · rw [h5] at h5'; simp at h5'; simp [h5']
            · rw [h5] at h5'; simp at h5'
            · rw [h5] at h5'; simp at h5'
            · simp [h5b, h5b']
    · simp only [ne_eq, hname, not_false_eq_true, if_true]
      constructor
      · intro h; simp at h
      · rintro ⟨c', hc', hnm, _⟩
        simp at hc'; subst hc'
        exact absurd hnm.symm hname

/-- a tuple without a condition is satisfied without looking at anything -/
theorem evalTuple_unconditioned {E : Type} (std : Std) (cel : Cel E) (tup : Option Ctx)
    (ec : Option (Cond E)) (req : Option Ctx) : evalTuple std cel "" tup ec req = .ok true := by
  simp [evalTuple]

/-- **`true` never arises from an error**: a satisfied conditional tuple means CEL itself said `true`
on the merged, converted context with nothing missing -/
theorem true_only_from_cel_true {E : Type} (std : Std) (cel : Cel E) (condName : String) (tup : Option Ctx)
    (ec : Option (Cond E)) (req : Option Ctx) (hn : condName ≠ "")
    (h : evalTuple std cel condName tup ec req = .ok true) :
    ∃ c, ec = some c ∧ AllPresent c.params (mergedCtx req tup) ∧
      cel.eval c.expr (specEnv std c.params (mergedCtx req tup)) = .bool true := by
  obtain ⟨c, hc, _, _, _, h3, _, h5⟩ := (evalTuple_spec std cel condName tup ec req true hn).mp h
  rcases h5 with h5 | ⟨_, h5⟩
  · exact ⟨c, hc, h3, h5⟩
  · simp at h5

/-- **missing is an error**: if a declared parameter — referenced by the expression or not — is absent
from both contexts, the result is an error for every CEL behaviour (short-circuiting included),
never `true` or `false` -/
theorem missing_is_error {E : Type} (std : Std) (cel : Cel E) (c : Cond E) (tup req : Option Ctx)
    (k : String) (r : TypeRef) (hn : c.name ≠ "") (hk : (k, r) ∈ c.params)
    (habs : getLast (mergedCtx req tup) k = none) :
    ∃ e, evalTuple std cel c.name tup (some c) req = .error e := by
  cases h : evalTuple std cel c.name tup (some c) req with
  | error e => exact ⟨e, rfl⟩
  | ok b =>
    obtain ⟨c', hc', _, _, _, h3, _, _⟩ := (evalTuple_spec std cel c.name tup (some c) req b hn).mp h
    simp at hc'; subst hc'
    have := h3 k r hk
    rw [habs] at this; simp at this

/-- …and when nothing else fails first, the error is the missing-parameter error and names `k` -/
theorem missing_is_reported {E : Type} (std : Std) (cel : Cel E) (c : Cond E) (tup req : Option Ctx)
    (k : String) (r : TypeRef) (hn : c.name ≠ "") (hk : (k, r) ∈ c.params)
    (habs : getLast (mergedCtx req tup) k = none)
    (res : EvalResult)
    (hev : evaluate std cel c (req.getD []) tup.toList = .ok res) :
    evalTuple std cel c.name tup (some c) req = .error (.missing res.missing) ∧ k ∈ res.missing := by
  have hr := (evaluate_ok_iff std cel c _ _ res).mp hev
  rw [mergeCtx_eq] at hr
  obtain ⟨_, _, _, hmiss, _⟩ := hr
  have hkm : k ∈ res.missing := by
    rw [hmiss]; unfold missingOf
    refine List.mem_filter.mpr ⟨List.mem_map.mpr ⟨(k, r), hk, rfl⟩, ?_⟩
    cases hs : specEnv std c.params (mergedCtx req tup) k with
    | none => rfl
    | some _ =>
      have := specEnv_isSome_present std c.params _ k (by rw [hs]; rfl)
      rw [habs] at this; simp at this
  refine ⟨?_, hkm⟩
  unfold evalTuple
  simp only [hn, if_false, ne_eq, not_true_eq_false, hev]
  have : res.missing.length > 0 := List.length_pos_of_mem hkm
  simp [this]

/-- a value that does not convert to its declared type is an error as well -/
theorem mistyped_is_error {E : Type} (std : Std) (cel : Cel E) (c : Cond E) (tup req : Option Ctx)
    (k : String) (r : TypeRef) (pv : PVal) (hn : c.name ≠ "") (hk : (k, r) ∈ c.params)
    (hpres : getLast (mergedCtx req tup) k = some pv)
    (hbad : ∀ t tv, decode r = some t → convert std t (asInterface pv) ≠ .ok tv) :
    ∃ e, evalTuple std cel c.name tup (some c) req = .error e := by
  cases h : evalTuple std cel c.name tup (some c) req with
  | error e => exact ⟨e, rfl⟩
  | ok b =>
    obtain ⟨c', hc', _, _, _, _, h4, _⟩ := (evalTuple_spec std cel c.name tup (some c) req b hn).mp h
    simp at hc'; subst hc'
    obtain ⟨t, tv, hd, hcv⟩ := h4 k r pv hk hpres
    exact absurd hcv (hbad t tv hd)


/-! ## The conversion table -/

/-- element-wise relation between two lists of the same length -/
inductive Pointwise {α β : Type} (R : α → β → Prop) : List α → List β → Prop
  | nil : Pointwise R [] []
  | cons {a b as bs} : R a b → Pointwise R as bs → Pointwise R (a :: as) (b :: bs)

theorem convert_any (std : Std) (v : JVal) : convert std .any v = .ok (.any v) := by
  cases v <;> simp [convert]

theorem convert_bool_iff (std : Std) (v : JVal) (tv : TVal) :
    convert std .bool v = .ok tv ↔ ∃ b, v = .bool b ∧ tv = .bool b := by
  cases v <;> simp [convert, eq_comm]

theorem convert_string_iff (std : Std) (v : JVal) (tv : TVal) :
    convert std .string v = .ok tv ↔ ∃ s, v = .str s ∧ tv = .str s := by
  cases v <;> simp [convert, eq_comm]

theorem convert_duration_iff (std : Std) (v : JVal) (tv : TVal) :
    convert std .duration v = .ok tv ↔ ∃ s d, v = .str s ∧ std.parseDuration s = some d ∧ tv = .dur d := by
  cases v <;> simp [convert]
  rename_i s
  cases h : std.parseDuration s <;> simp [eq_comm]

theorem convert_timestamp_iff (std : Std) (v : JVal) (tv : TVal) :
    convert std .timestamp v = .ok tv ↔ ∃ s t, v = .str s ∧ std.parseRFC3339 s = some t ∧ tv = .ts t := by
  cases v <;> simp [convert]
  rename_i s
  cases h : std.parseRFC3339 s <;> simp [eq_comm]

theorem convert_ipaddress_iff (std : Std) (v : JVal) (tv : TVal) :
    convert std .ipaddress v = .ok tv ↔ ∃ s a, v = .str s ∧ std.parseIP s = some a ∧ tv = .ip a := by
  cases v <;> simp [convert]
  rename_i s
  cases h : std.parseIP s <;> simp [eq_comm]

theorem convertList_ok_iff (std : Std) (t : PType) (xs : List JVal) (ys : List TVal) :
    convertList std t xs = .ok ys ↔ Pointwise (fun x y => convert std t x = .ok y) xs ys := by
  induction xs generalizing ys with
  | nil =>
    cases ys with
    | nil => simp [convertList]; exact .nil
    | cons y ys => simp [convertList]; intro h; cases h
  | cons x xs ih =>
    simp only [convertList]
    cases hx : convert std t x with
    | typeErr => simp; intro h; cases h; simp_all
    | panic => simp; intro h; cases h; simp_all
    | ok y =>
      simp only
      cases hxs : convertList std t xs with
      | typeErr =>
        simp; intro h; cases h with | cons h1 h2 => exact absurd ((ih _).mpr h2) (by simp [hxs])
      | panic =>
        simp; intro h; cases h with | cons h1 h2 => exact absurd ((ih _).mpr h2) (by simp [hxs])
      | ok ys' =>
        constructor
        · intro h; simp at h; subst h; exact .cons hx ((ih _).mp hxs)
        · intro h
          cases h with
          | cons h1 h2 =>
            rw [hx] at h1; simp at h1; subst h1
            have := (ih _).mpr h2; rw [hxs] at this; simp at this; subst this; rfl

theorem convertFields_ok_iff (std : Std) (t : PType) (fs : List (String × JVal)) (gs : List (String × TVal)) :
    convertFields std t fs = .ok gs ↔
      Pointwise (fun f g => f.1 = g.1 ∧ convert std t f.2 = .ok g.2) fs gs := by
  induction fs generalizing gs with
  | nil =>
    cases gs with
    | nil => simp [convertFields]; exact .nil
    | cons g gs => simp [convertFields]; intro h; cases h
  | cons f fs ih =>
    obtain ⟨k, x⟩ := f
    simp only [convertFields]
    cases hx : convert std t x with
    | typeErr => simp; intro h; cases h; simp_all
    | panic => simp; intro h; cases h; simp_all
    | ok y =>
      simp only
      cases hxs : convertFields std t fs with
      | typeErr =>
        simp; intro h; cases h with | cons h1 h2 => exact absurd ((ih _).mpr h2) (by simp [hxs])
      | panic =>
        simp; intro h; cases h with | cons h1 h2 => exact absurd ((ih _).mpr h2) (by simp [hxs])
      | ok gs' =>
        constructor
        · intro h; simp at h; subst h; exact .cons ⟨rfl, hx⟩ ((ih _).mp hxs)
        · intro h
          cases h with
          | cons h1 h2 =>
            rename_i g gs''
            obtain ⟨k', y'⟩ := g
            simp at h1; obtain ⟨rfl, h1⟩ := h1
            rw [hx] at h1; simp at h1; subst h1
            have := (ih _).mpr h2; rw [hxs] at this; simp at this; subst this; rfl

/-- **list<T>** converts element by element, in order, and fails if any element fails -/
theorem convert_list_iff (std : Std) (t : PType) (v : JVal) (tv : TVal) :
    convert std (.list t) v = .ok tv ↔
      ∃ xs ys, v = .list xs ∧ tv = .list ys ∧ Pointwise (fun x y => convert std t x = .ok y) xs ys := by
  cases v <;> simp [convert]
  rename_i xs
  cases h : convertList std t xs with
  | typeErr => simp; intro ys _ hf; exact absurd ((convertList_ok_iff std t xs ys).mpr hf) (by simp [h])
  | panic => simp; intro ys _ hf; exact absurd ((convertList_ok_iff std t xs ys).mpr hf) (by simp [h])
  | ok ys =>
    simp
    constructor
    · intro e; exact ⟨ys, e.symm, (convertList_ok_iff std t xs ys).mp h⟩
    · rintro ⟨ys', rfl, hf⟩
      have := (convertList_ok_iff std t xs ys').mpr hf; rw [h] at this; simp at this; simp [this]

/-- **map<T>** requires an object; keys are kept verbatim (they are strings by construction), every value
is converted to T -/
theorem convert_map_iff (std : Std) (t : PType) (v : JVal) (tv : TVal) :
    convert std (.map t) v = .ok tv ↔
      ∃ fs gs, v = .obj fs ∧ tv = .map gs ∧
        Pointwise (fun f g => f.1 = g.1 ∧ convert std t f.2 = .ok g.2) fs gs := by
  cases v <;> simp [convert]
  rename_i fs
  cases h : convertFields std t fs with
  | typeErr => simp; intro gs _ hf; exact absurd ((convertFields_ok_iff std t fs gs).mpr hf) (by simp [h])
  | panic => simp; intro gs _ hf; exact absurd ((convertFields_ok_iff std t fs gs).mpr hf) (by simp [h])
  | ok gs =>
    simp
    constructor
    · intro e; exact ⟨gs, e.symm, (convertFields_ok_iff std t fs gs).mp h⟩
    · rintro ⟨gs', rfl, hf⟩
      have := (convertFields_ok_iff std t fs gs').mpr hf; rw [h] at this; simp at this; simp [this]


/-! ## numeric conversions -/

theorem bitlen_le_iff (n k : Nat) : bitlen n ≤ k ↔ n < 2 ^ k := by
  unfold bitlen
  by_cases h : n = 0
  · subst h; simp [Nat.pow_pos]
  · simp only [h, if_false]
    rw [Nat.add_one_le_iff, Nat.log2_lt h]

theorem lt_two_pow_bitlen (n : Nat) : n < 2 ^ bitlen n := (bitlen_le_iff n _).mp (Nat.le_refl _)

theorem two_pow_bitlen_pred_le (n : Nat) (h : 0 < n) : 2 ^ (bitlen n - 1) ≤ n := by
  unfold bitlen
  have hn : n ≠ 0 := Nat.pos_iff_ne_zero.mp h
  simp only [hn, if_false, Nat.add_sub_cancel]
  exact Nat.log2_self_le hn

theorem bitlen_pos (n : Nat) (h : 0 < n) : 0 < bitlen n := by
  unfold bitlen; simp [Nat.pos_iff_ne_zero.mp h]

/-- the exact value of `m·2^e` truncated towards zero (exact when the value is an integer) -/
def truncNat (m : Nat) (e : Int) : Nat := if e ≥ 0 then m * 2 ^ e.toNat else m / 2 ^ e.natAbs

theorem truncNat_lt (m : Nat) (e : Int) (h : e + bitlen m ≤ 63) : truncNat m e < 2 ^ 63 := by
  unfold truncNat
  have hm := lt_two_pow_bitlen m
  by_cases he : e ≥ 0
  · simp only [he, if_true]
    have hk : e.toNat + bitlen m ≤ 63 := by omega
    calc m * 2 ^ e.toNat < 2 ^ bitlen m * 2 ^ e.toNat :=
          Nat.mul_lt_mul_of_lt_of_le hm (Nat.le_refl _) (Nat.pow_pos (by decide))
      _ = 2 ^ (bitlen m + e.toNat) := (Nat.pow_add 2 _ _).symm
      _ ≤ 2 ^ 63 := Nat.pow_le_pow_right (by decide) (by omega)
  · simp only [he, if_false]
    have hk : bitlen m ≤ 63 + e.natAbs := by omega
    apply Nat.div_lt_of_lt_mul
    calc m < 2 ^ bitlen m := hm
      _ ≤ 2 ^ (e.natAbs + 63) := Nat.pow_le_pow_right (by decide) (by omega)
      _ = 2 ^ e.natAbs * 2 ^ 63 := Nat.pow_add 2 _ _

theorem truncNat_ge (m : Nat) (e : Int) (hm : 0 < m) (h : e + bitlen m > 63) : 2 ^ 63 ≤ truncNat m e := by
  unfold truncNat
  have hlow := two_pow_bitlen_pred_le m hm
  have hb := bitlen_pos m hm
  by_cases he : e ≥ 0
  · simp only [he, if_true]
    calc 2 ^ 63 ≤ 2 ^ (bitlen m - 1 + e.toNat) := Nat.pow_le_pow_right (by decide) (by omega)
      _ = 2 ^ (bitlen m - 1) * 2 ^ e.toNat := Nat.pow_add 2 _ _
      _ ≤ m * 2 ^ e.toNat := Nat.mul_le_mul_right _ hlow
  · simp only [he, if_false]
    rw [Nat.le_div_iff_mul_le (Nat.pow_pos (by decide))]
    calc 2 ^ 63 * 2 ^ e.natAbs = 2 ^ (63 + e.natAbs) := (Nat.pow_add 2 _ _).symm
      _ ≤ 2 ^ (bitlen m - 1) := Nat.pow_le_pow_right (by decide) (by omega)
      _ ≤ m := hlow

/-- the exact integer an integer-valued `big.Float` stands for -/
def bfToInt : BF → Int
  | .zero _ => 0
  | .inf _ => 0
  | .fin neg m e => if neg then -(truncNat m e : Int) else (truncNat m e : Int)

/-- saturation to the int64 range -/
def clampI64 (z : Int) : Int := if z > maxInt64 then maxInt64 else if z < minInt64 then minInt64 else z

/-- a `big.Float` in the shape Go keeps it: finite values have a non-zero mantissa -/
def BFWF : BF → Prop
  | .fin _ m _ => 0 < m
  | _ => True

/-- **`Float.Int64()` as used by the converters = the exact integer, saturated** (the accuracy result that
would signal the saturation is discarded by the caller) -/
theorem int64_eq_clamp (x : BF) (hwf : BFWF x) (hint : x.isInt = true) : x.int64 = clampI64 (bfToInt x) := by
  cases x with
  | zero n => simp [BF.int64, bfToInt, clampI64, maxInt64, minInt64]
  | inf n => simp [BF.isInt] at hint
  | fin neg m e =>
    have hm : 0 < m := hwf
    have hb := bitlen_pos m hm
    have hgpos : ¬ (e + (bitlen m : Int) ≤ 0) := by
      intro hle
      unfold BF.isInt at hint
      by_cases he : e ≥ 0
      · omega
      · simp [he, hle] at hint
    unfold BF.int64
    simp only [hgpos, if_false]
    by_cases h63 : e + (bitlen m : Int) ≤ 63
    · have hlt := truncNat_lt m e h63
      simp only [h63, if_true]
      have ht : (if e ≥ 0 then m * 2 ^ e.toNat else m / 2 ^ e.natAbs) = truncNat m e := rfl
      rw [ht]
      unfold bfToInt clampI64 maxInt64 minInt64
      cases neg <;> simp <;> omega
    · have hge := truncNat_ge m e hm (by omega)
      simp only [h63, if_false]
      unfold bfToInt clampI64 maxInt64 minInt64
      cases neg <;> simp <;> omega

theorem int64_le_max (x : BF) : x.int64 ≤ maxInt64 := by
  cases x with
  | zero n => simp [BF.int64, maxInt64]
  | inf n => cases n <;> simp [BF.int64, maxInt64, minInt64]
  | fin neg m e =>
    unfold BF.int64
    simp only
    split
    · simp [maxInt64]
    · split
      · rename_i h63
        have hlt := truncNat_lt m e h63
        have ht : (if e ≥ 0 then m * 2 ^ e.toNat else m / 2 ^ e.natAbs) = truncNat m e := rfl
        rw [ht]; unfold maxInt64
        cases neg <;> simp <;> omega
      · cases neg <;> simp [maxInt64, minInt64]

/-- **int**: accepted exactly when the number is an integer; the result is that integer saturated to
[MinInt64, MaxInt64] (so 1e100 becomes MaxInt64, not an error) -/
theorem int_conversion (bf : BF) (hwf : BFWF bf) :
    numFromBF .int64 bf = if bf.isInt then .ok (.int (clampI64 (bfToInt bf))) else .typeErr := by
  unfold numFromBF
  cases h : bf.isInt with
  | false => simp
  | true => simp [int64_eq_clamp bf hwf h]

/-- **uint**: integer, not negative; the value goes through `Int64()` as well, so it saturates at
MaxInt64 — the upper half of the uint64 range is unreachable -/
theorem uint_conversion (bf : BF) (hwf : BFWF bf) (n : Nat) :
    numFromBF .uint64 bf = .ok (.uint n) ↔
      bf.isInt = true ∧ 0 ≤ clampI64 (bfToInt bf) ∧ n = (clampI64 (bfToInt bf)).toNat := by
  unfold numFromBF
  cases h : bf.isInt with
  | false => simp
  | true =>
    simp only [Bool.not_true, Bool.false_eq_true, if_false, int64_eq_clamp bf hwf h, true_and]
    by_cases hneg : clampI64 (bfToInt bf) < 0
    · simp [hneg]; omega
    · simp [hneg]; constructor
      · intro e; exact ⟨by omega, e.symm⟩
      · rintro ⟨_, e⟩; exact e.symm

theorem uint_rejects_negative (bf : BF) (hwf : BFWF bf) (h : bf.isInt = true) (hneg : bfToInt bf < 0) :
    numFromBF .uint64 bf = .typeErr := by
  unfold numFromBF
  have : clampI64 (bfToInt bf) < 0 := by unfold clampI64 maxInt64 minInt64; split <;> (try split) <;> omega
  simp [h, int64_eq_clamp bf hwf h, this]

theorem uint_never_above_maxInt64 (bf : BF) (n : Nat) (h : numFromBF .uint64 bf = .ok (.uint n)) :
    n ≤ 9223372036854775807 := by
  unfold numFromBF at h
  cases hi : bf.isInt with
  | false => simp [hi] at h
  | true =>
    simp only [hi, Bool.not_true, Bool.false_eq_true, if_false] at h
    have := int64_le_max bf
    unfold maxInt64 at this
    split at h
    · simp at h
    · simp at h; omega

/-- **double from a string**: accepted exactly when the 64-bit parse result is itself a float64
(`Float64()` accuracy Exact) — "0.5" is, "0.1" is not -/
theorem double_conversion (bf : BF) (bits : Nat) :
    numFromBF .float64 bf = .ok (.double bits) ↔ bf.float64Exact = some bits := by
  unfold numFromBF
  cases h : bf.float64Exact <;> simp

/-- a JSON number for a double parameter is passed through untouched (`value.(T)` succeeds) -/
theorem double_of_number (b : Nat) : numericConv .float64 (.num b) = .ok (.double b) := by
  simp [numericConv]

theorem ofF64_wf (b : Nat) : BFWF (BF.ofF64 b) := by
  unfold BF.ofF64
  split
  · trivial
  · split
    · trivial
    · rename_i h; exact Nat.pos_of_ne_zero h

/-- a JSON number for an int parameter: NaN panics (direct callers only), otherwise integral ⇒ saturated
value, non-integral or ±Inf ⇒ error -/
theorem int_of_number (b : Nat) :
    numericConv .int64 (.num b) =
      if F64.isNaN b then .panic
      else if (BF.ofF64 b).isInt then .ok (.int (clampI64 (bfToInt (BF.ofF64 b)))) else .typeErr := by
  unfold numericConv
  simp only [show (NumKind.int64 = NumKind.float64) = False by simp, if_false]
  split
  · rfl
  · exact int_conversion _ (ofF64_wf b)

theorem inf_is_not_int (b : Nat) (h : F64.isInf b = true) : (BF.ofF64 b).isInt = false := by
  simp [BF.ofF64, h, BF.isInt]

/-- bool, null, lists and objects never convert to a numeric type; there is no bool-from-string either -/
theorem numeric_rejects_non_numbers (k : NumKind) (v : JVal)
    (h : (∀ b, v ≠ .num b) ∧ (∀ s, v ≠ .str s)) : numericConv k v = .typeErr := by
  cases v <;> simp_all [numericConv]


/-! ### the parse pipeline keeps mantissas non-zero -/

theorem roundNE_pos (prec m : Nat) (sticky : Bool) (hp : 0 < prec) (hm : 0 < m) : 0 < (roundNE prec m sticky).1 := by
  unfold roundNE
  simp only
  split
  · exact hm
  · rename_i hl
    have hb := bitlen_pos m hm
    have hq : 0 < m / 2 ^ (bitlen m - prec) := by
      apply Nat.div_pos _ (Nat.pow_pos (by decide))
      calc 2 ^ (bitlen m - prec) ≤ 2 ^ (bitlen m - 1) := Nat.pow_le_pow_right (by decide) (by omega)
        _ ≤ m := two_pow_bitlen_pred_le m hm
    split <;> omega

theorem mk_wf (prec : Nat) (neg : Bool) (m : Nat) (e : Int) (sticky : Bool) (hp : 0 < prec) :
    BFWF (BF.mk prec neg m e sticky) := by
  unfold BF.mk
  split
  · trivial
  · rename_i hm
    simp only
    split
    · trivial
    · split
      · trivial
      · split
        · trivial
        · exact roundNE_pos prec m sticky hp (Nat.pos_of_ne_zero hm)

theorem mul_wf (prec : Nat) (x y : BF) (hp : 0 < prec) : BFWF (BF.mul prec x y) := by
  cases x <;> cases y <;> simp only [BF.mul] <;> first | exact mk_wf _ _ _ _ _ hp | trivial

theorem quo_wf (prec : Nat) (x y : BF) (hp : 0 < prec) : BFWF (BF.quo prec x y) := by
  cases x <;> cases y <;> simp only [BF.quo] <;> first | exact mk_wf _ _ _ _ _ hp | trivial

theorem assembleBF_wf (neg : Bool) (mant fcount : Nat) (exp : Int) (ten : Bool) (bf : BF) (hm : 0 < mant)
    (h : assembleBF neg mant fcount exp ten = some bf) : BFWF bf := by
  unfold assembleBF at h
  simp only at h
  generalize ((if ten = true then exp else 0) - (fcount : Int)) = e5 at h
  by_cases h1 : ((bitlen mant : Int) + (exp - fcount) < minExp ∨ (bitlen mant : Int) + (exp - fcount) > maxExp)
  · rw [if_pos h1] at h; simp at h
  · rw [if_neg h1] at h
    by_cases h2 : e5 = 0
    · rw [if_pos h2] at h
      simp at h; subst h
      split
      · trivial
      · exact roundNE_pos 64 mant false (by decide) hm
    · rw [if_neg h2] at h
      by_cases h3 : e5 < 0
      · rw [if_pos h3] at h; simp at h; subst h; exact quo_wf 64 _ _ (by decide)
      · rw [if_neg h3] at h; simp at h; subst h; exact mul_wf 64 _ _ (by decide)

theorem roundNE_small (prec m : Nat) (s : Bool) (h : bitlen m ≤ prec) : roundNE prec m s = (m, 0) := by
  unfold roundNE; simp [h]

theorem assembleBF_exact (neg : Bool) (n : Nat) (hn : 0 < n) (hb : bitlen n ≤ 64) :
    assembleBF neg n 0 0 true = some (.fin neg n 0) := by
  have hbpos := bitlen_pos n hn
  unfold assembleBF
  simp only [roundNE_small 64 n false hb]
  have h1 : ¬ ((bitlen n : Int) + (0 - ((0 : Nat) : Int)) < minExp ∨ (bitlen n : Int) + (0 - ((0 : Nat) : Int)) > maxExp) := by
    unfold minExp maxExp; omega
  rw [if_neg h1]
  have h2 : ¬ ((0 : Int) - ((0 : Nat) : Int) + ((0 : Nat) : Int) + (bitlen n : Int) > maxExp) := by
    unfold maxExp; omega
  simp only [if_true, if_neg h2]
  simp

theorem parseUnsigned_wf (neg : Bool) (body : Bytes) (bf : BF) (h : parseUnsigned neg body = some bf) : BFWF bf := by
  unfold parseUnsigned at h
  split at h
  rename_i mant cnt fcount rest _
  split at h
  · simp at h
  · split at h
    · simp at h
    · split at h
      · simp at h
      · split at h
        · simp at h; subst h; trivial
        · rename_i hm
          exact assembleBF_wf _ _ _ _ _ _ (Nat.pos_of_ne_zero hm) h

/-- everything `big.ParseFloat` returns has a non-zero mantissa when finite -/
theorem parseBF_wf (s : Bytes) (bf : BF) (h : parseBF s = some bf) : BFWF bf := by
  unfold parseBF at h
  split at h
  · simp at h; subst h; trivial
  · split at h
    · simp at h; subst h; trivial
    · split at h
      · simp at h; subst h; trivial
      · split at h
        · simp at h
        · split at h
          · exact parseUnsigned_wf _ _ _ h
          · split at h
            · exact parseUnsigned_wf _ _ _ h
            · exact parseUnsigned_wf _ _ _ h

/-! ### plain decimal strings -/

def digitsVal (ds : Bytes) : Nat := ds.foldl (fun a c => a * 10 + (c.toNat - 48)) 0

theorem scanMant_digits (ds : Bytes) (acc cnt : Nat) (hd : ∀ c ∈ ds, isDigit c = true) :
    scanMant ds acc cnt none = (ds.foldl (fun a c => a * 10 + (c.toNat - 48)) acc, cnt + ds.length, 0, []) := by
  induction ds generalizing acc cnt with
  | nil => simp [scanMant]
  | cons c cs ih =>
    have hc : isDigit c = true := hd c (by simp)
    have h46 : c ≠ 46 := by intro e; subst e; simp [isDigit] at hc
    simp only [scanMant, h46, false_and, if_false, hc, if_true, List.foldl_cons, List.length_cons]
    rw [ih _ _ (fun x hx => hd x (by simp [hx]))]
    simp; omega

theorem scanExp_nil : scanExp [] = some (0, true, []) := rfl

theorem parseUnsigned_digits (neg : Bool) (ds : Bytes) (hd : ∀ c ∈ ds, isDigit c = true)
    (hpos : 0 < digitsVal ds) (hlt : digitsVal ds < 2 ^ 64) :
    parseUnsigned neg ds = some (.fin neg (digitsVal ds) 0) := by
  have hs : scanMant ds 0 0 none = (digitsVal ds, ds.length, 0, []) := by
    have := scanMant_digits ds 0 0 hd
    rw [Nat.zero_add] at this
    exact this
  have hlen : ¬ (ds.length = 0) := by
    intro h
    have : ds = [] := List.eq_nil_of_length_eq_zero h
    subst this; simp [digitsVal] at hpos
  have hm0 : ¬ (digitsVal ds = 0) := Nat.pos_iff_ne_zero.mp hpos
  have hb64 : bitlen (digitsVal ds) ≤ 64 := (bitlen_le_iff _ _).mpr hlt
  unfold parseUnsigned
  rw [hs]
  simp only [if_neg hlen, scanExp_nil, ne_eq, not_true_eq_false, if_false, if_neg hm0]
  exact assembleBF_exact neg _ hpos hb64

/-- **decimal strings**: a string of digits (no sign, point or exponent) denoting n with 0 < n < 2^64
parses exactly to n -/
theorem parseBF_digits (ds : Bytes) (hd : ∀ c ∈ ds, isDigit c = true)
    (hpos : 0 < digitsVal ds) (hlt : digitsVal ds < 2 ^ 64) :
    parseBF ds = some (.fin false (digitsVal ds) 0) := by
  cases ds with
  | nil => simp [digitsVal] at hpos
  | cons c cs =>
    have hc : isDigit c = true := hd c (by simp)
    have hne : ∀ x : UInt8, isDigit x = false → c ≠ x := fun x hx e => by subst e; simp [hc] at hx
    have h73 := hne 73 (by decide); have h105 := hne 105 (by decide)
    have h43 := hne 43 (by decide); have h45 := hne 45 (by decide)
    unfold parseBF
    simp only [strInfU, strInfL, List.cons.injEq, h73, h105, h43, h45, false_and, or_self, if_false]
    exact parseUnsigned_digits false (c :: cs) hd hpos hlt



/-- **int from a decimal string**: digits denoting n (0 < n < 2^64) convert to min(n, MaxInt64) -/
theorem int_from_decimal_string (std : Std) (ds : Bytes) (hd : ∀ c ∈ ds, isDigit c = true)
    (hpos : 0 < digitsVal ds) (hlt : digitsVal ds < 2 ^ 64) :
    convert std .int (.str ds) = .ok (.int (if digitsVal ds > 9223372036854775807 then 9223372036854775807 else digitsVal ds)) := by
  have hp := parseBF_digits ds hd hpos hlt
  simp only [convert, numericConv, hp]
  rw [int_conversion _ (by exact hpos)]
  simp only [BF.isInt, ge_iff_le, Int.le_refl, if_true]
  simp only [bfToInt, truncNat, clampI64, maxInt64, minInt64]
  simp
  split <;> split <;> omega

/-! ### no panic through the API -/

mutual
def noNaN : JVal → Bool
  | .num b => !F64.isNaN b
  | .list xs => noNaNList xs
  | .obj fs => noNaNFields fs
  | _ => true
def noNaNList : List JVal → Bool
  | [] => true
  | x :: xs => noNaN x && noNaNList xs
def noNaNFields : List (String × JVal) → Bool
  | [] => true
  | (_, x) :: xs => noNaN x && noNaNFields xs
end

mutual
theorem noNaN_asInterface : ∀ pv : PVal, noNaN (asInterface pv) = true
  | .null => by simp [asInterface, noNaN]
  | .num b => by
      unfold asInterface
      split
      · simp [noNaN]
      · split
        · split <;> simp [noNaN]
        · rename_i h _; simp [noNaN, h]
  | .str s => by simp [asInterface, noNaN]
  | .bool b => by simp [asInterface, noNaN]
  | .list xs => by simp only [asInterface, noNaN]; exact noNaN_asInterfaceList xs
  | .struct fs => by simp only [asInterface, noNaN]; exact noNaN_asInterfaceFields fs
theorem noNaN_asInterfaceList : ∀ xs : List PVal, noNaNList (asInterface.asInterfaceList xs) = true
  | [] => by simp [asInterface.asInterfaceList, noNaNList]
  | x :: xs => by
      simp only [asInterface.asInterfaceList, noNaNList, Bool.and_eq_true]
      exact ⟨noNaN_asInterface x, noNaN_asInterfaceList xs⟩
theorem noNaN_asInterfaceFields : ∀ fs : List (String × PVal), noNaNFields (asInterface.asInterfaceFields fs) = true
  | [] => by simp [asInterface.asInterfaceFields, noNaNFields]
  | (k, x) :: xs => by
      simp only [asInterface.asInterfaceFields, noNaNFields, Bool.and_eq_true]
      exact ⟨noNaN_asInterface x, noNaN_asInterfaceFields xs⟩
end

theorem numFromBF_no_panic (k : NumKind) (bf : BF) : numFromBF k bf ≠ .panic := by
  unfold numFromBF
  cases k <;> simp only <;> repeat (first | split | simp)

theorem numericConv_no_panic (k : NumKind) (v : JVal) (h : noNaN v = true) : numericConv k v ≠ .panic := by
  cases v with
  | num b =>
    simp [noNaN] at h
    simp only [numericConv]
    split
    · simp
    · simp only [h, Bool.false_eq_true, if_false]; exact numFromBF_no_panic _ _
  | str s =>
    simp only [numericConv]
    split
    · simp
    · exact numFromBF_no_panic _ _
  | _ => simp [numericConv]

theorem convert_no_panic (std : Std) : ∀ (t : PType) (v : JVal), noNaN v = true → convert std t v ≠ .panic := by
  intro t
  induction t with
  | any => intro v _; cases v <;> simp [convert]
  | bool => intro v _; cases v <;> simp [convert]
  | string => intro v _; cases v <;> simp [convert]
  | int => intro v h; simp only [convert]; exact numericConv_no_panic _ _ h
  | uint => intro v h; simp only [convert]; exact numericConv_no_panic _ _ h
  | double => intro v h; simp only [convert]; exact numericConv_no_panic _ _ h
  | duration => intro v _; cases v <;> simp [convert]; split <;> simp
  | timestamp => intro v _; cases v <;> simp [convert]; split <;> simp
  | ipaddress => intro v _; cases v <;> simp [convert]; split <;> simp
  | list t ih =>
    intro v h
    cases v <;> simp [convert]
    rename_i xs
    simp [noNaN] at h
    have hl : convertList std t xs ≠ .panic := by
      induction xs with
      | nil => simp [convertList]
      | cons x xs ihx =>
        simp [noNaNList] at h
        simp only [convertList]
        have := ih x h.1
        have := ihx h.2
        split <;> (try split) <;> simp_all
    split <;> simp_all
  | map t ih =>
    intro v h
    cases v <;> simp [convert]
    rename_i fs
    simp [noNaN] at h
    have hl : convertFields std t fs ≠ .panic := by
      induction fs with
      | nil => simp [convertFields]
      | cons f fs ihx =>
        obtain ⟨k, x⟩ := f
        simp [noNaNFields] at h
        simp only [convertFields]
        have := ih x h.1
        have := ihx h.2
        split <;> (try split) <;> simp_all
    split <;> simp_all

/-- **no panic through the API**: whatever protobuf value arrives, `AsInterface` never hands a NaN number to
a converter (NaN becomes the string "NaN"), so `big.NewFloat(NaN)` is unreachable -/
theorem pipeline_no_panic (std : Std) (t : PType) (pv : PVal) : convert std t (asInterface pv) ≠ .panic :=
  convert_no_panic std t _ (noNaN_asInterface pv)

theorem castLoop_no_panic (std : Std) (m : Ctx) (params : List (String × TypeRef)) :
    castLoop std m params ≠ .panic := by
  induction params with
  | nil => simp [castLoop]
  | cons p ps ih =>
    obtain ⟨k, r⟩ := p
    simp only [castLoop]
    split
    · exact ih
    · split
      · simp
      · have := pipeline_no_panic std ‹PType› ‹PVal›
        split <;> (try split) <;> simp_all

theorem castContext_no_panic (std : Std) (params : List (String × TypeRef)) (m : Ctx) :
    castContext std params m ≠ .panic := by
  unfold castContext
  split
  · simp
  · split
    · simp
    · exact castLoop_no_panic _ _ _

theorem evaluate_no_panic {E : Type} (std : Std) (cel : Cel E) (c : Cond E) (first : Ctx) (rest : List Ctx) :
    evaluate std cel c first rest ≠ .error .panic := by
  unfold evaluate
  cases compileOk cel c with
  | false => simp
  | true =>
    simp only [Bool.not_true, Bool.false_eq_true, if_false]
    cases hcast : castContext std c.params (mergeCtx first rest) with
    | typeErr => simp
    | panic => exact absurd hcast (castContext_no_panic _ _ _)
    | ok typed => simp only; cases cel.eval c.expr (getLast typed) <;> simp

/-- `EvaluateTupleCondition` never reports a panic for a freshly built condition -/
theorem evalTuple_no_panic {E : Type} (std : Std) (cel : Cel E) (condName : String) (tup : Option Ctx)
    (ec : Option (Cond E)) (req : Option Ctx) : evalTuple std cel condName tup ec req ≠ .error .panic := by
  unfold evalTuple
  split
  · simp
  · cases ec with
    | none => simp
    | some c =>
      simp only
      split
      · simp
      · cases hev : evaluate std cel c (req.getD []) tup.toList with
        | error e =>
          simp only
          intro h; simp at h; subst h
          exact evaluate_no_panic std cel c _ _ hev
        | ok r => simp only; split <;> simp

/-! ### witnesses of the observed table (evaluated by the kernel) -/

def noStd : Std := ⟨fun _ => none, fun _ => none, fun _ => none⟩
def intOf : Res TVal → Option Int | .ok (.int i) => some i | _ => none
def uintOf : Res TVal → Option Nat | .ok (.uint n) => some n | _ => none
def doubleOf : Res TVal → Option Nat | .ok (.double b) => some b | _ => none
def isTypeErr : Res TVal → Bool | .typeErr => true | _ => false
def isPanic : Res TVal → Bool | .panic => true | _ => false

/-- observation (b): out-of-range integers saturate instead of failing — "1e100", "-1e100", the number
1e19 (bits 0x43E158E460913D00), and uint "18446744073709551615" (MaxUint64) all clamp to ±MaxInt64 -/
theorem witness_saturation :
    intOf (convert noStd .int (.str [49, 101, 49, 48, 48])) = some 9223372036854775807 ∧
    intOf (convert noStd .int (.str [45, 49, 101, 49, 48, 48])) = some (-9223372036854775808) ∧
    intOf (convert noStd .int (.num 0x43E158E460913D00)) = some 9223372036854775807 ∧
    uintOf (convert noStd .uint (.str [49, 56, 52, 52, 54, 55, 52, 52, 48, 55, 51, 55, 48, 57, 53, 53, 49, 54, 49, 53]))
      = some 9223372036854775807 := by decide

/-- the integer forms the table accepts: "1.0", "+7", "10e-1", "1p3" (binary exponent), "5." — and
rejects: "1.5", "", "0x10", " 1", "1_000", "true" -/
theorem witness_int_strings :
    intOf (convert noStd .int (.str [49, 46, 48])) = some 1 ∧
    intOf (convert noStd .int (.str [43, 55])) = some 7 ∧
    intOf (convert noStd .int (.str [49, 48, 101, 45, 49])) = some 1 ∧
    intOf (convert noStd .int (.str [49, 112, 51])) = some 8 ∧
    intOf (convert noStd .int (.str [53, 46])) = some 5 ∧
    isTypeErr (convert noStd .int (.str [49, 46, 53])) = true ∧
    isTypeErr (convert noStd .int (.str [])) = true ∧
    isTypeErr (convert noStd .int (.str [48, 120, 49, 48])) = true ∧
    isTypeErr (convert noStd .int (.str [32, 49])) = true ∧
    isTypeErr (convert noStd .int (.str [49, 95, 48, 48, 48])) = true ∧
    isTypeErr (convert noStd .int (.str [116, 114, 117, 101])) = true ∧
    isTypeErr (convert noStd .int (.bool true)) = true ∧
    isTypeErr (convert noStd .int .null) = true := by decide

/-- uint rejects negatives (numbers and strings), accepts -0 -/
theorem witness_uint :
    isTypeErr (convert noStd .uint (.num 0xBFF0000000000000)) = true ∧        -- -1.0
    isTypeErr (convert noStd .uint (.str [45, 49])) = true ∧                  -- "-1"
    uintOf (convert noStd .uint (.str [45, 48])) = some 0 ∧                   -- "-0"
    uintOf (convert noStd .uint (.num 0x401C000000000000)) = some 7 := by decide

/-- observation (c): a double given as a string must be exactly a float64: "0.5" and "1e10" are, "0.1" and
"9223372036854775807" are not; "inf" is accepted as +Inf; a JSON number always passes, NaN included -/
theorem witness_double :
    doubleOf (convert noStd .double (.str [48, 46, 53])) = some 0x3FE0000000000000 ∧
    doubleOf (convert noStd .double (.str [49, 101, 49, 48])) = some 0x4202A05F20000000 ∧
    isTypeErr (convert noStd .double (.str [48, 46, 49])) = true ∧
    isTypeErr (convert noStd .double (.str [57, 50, 50, 51, 51, 55, 50, 48, 51, 54, 56, 53, 52, 55, 55, 53, 56, 48, 55])) = true ∧
    doubleOf (convert noStd .double (.str [105, 110, 102])) = some 0x7FF0000000000000 ∧
    doubleOf (convert noStd .double (.num 0x7FF8000000000001)) = some 0x7FF8000000000001 := by decide

/-- a NaN float64 handed to the int converter *directly* panics (`big.NewFloat(NaN)`); through a protobuf
value it is the string "NaN" and is rejected -/
theorem witness_nan :
    isPanic (convert noStd .int (.num 0x7FF8000000000001)) = true ∧
    isTypeErr (convert noStd .int (asInterface (.num 0x7FF8000000000001))) = true ∧
    isTypeErr (convert noStd .double (asInterface (.num 0x7FF8000000000001))) = true := by decide


/-! ## Ties to the regenerated facts (`Gen.Condition`, from the Go source on every run) -/

/-- the `TYPE_NAME_*` constant of a model type name -/
def constName : TypeName → String
  | .any => "ANY" | .bool => "BOOL" | .string => "STRING" | .int => "INT" | .uint => "UINT"
  | .double => "DOUBLE" | .duration => "DURATION" | .timestamp => "TIMESTAMP" | .map => "MAP"
  | .list => "LIST" | .ipaddress => "IPADDRESS" | .unspecified => "UNSPECIFIED" | .other _ => "?"

/-- the Go converter each branch of `convert` mirrors -/
def converterName : TypeName → String
  | .any => "anyTypeConverterFunc"
  | .bool => "primitiveTypeConverterFunc[bool]"
  | .string => "primitiveTypeConverterFunc[string]"
  | .int => "numericTypeConverterFunc[int64]"
  | .uint => "numericTypeConverterFunc[uint64]"
  | .double => "numericTypeConverterFunc[float64]"
  | .duration => "durationTypeConverterFunc"
  | .timestamp => "timestampTypeConverterFunc"
  | .map => "mapTypeConverterFunc"
  | .list => "listTypeConverterFunc"
  | .ipaddress => "ipaddressTypeConverterFunc"
  | _ => "?"

/-- the type names the model's `genericCount` registers, in the source's registration order -/
def registeredNames : List TypeName :=
  [.any, .bool, .string, .int, .uint, .double, .duration, .timestamp, .map, .list, .ipaddress]

/-- **registration table**: the `registerParamType…` calls of the source are exactly the model's table —
same type names, same generic-type counts, and each type is served by the converter `convert` mirrors -/
theorem tie_registrations :
    Gen.Condition.registrations =
      registeredNames.map (fun t => (constName t, (genericCount t).getD 99, converterName t)) := by decide

/-- nothing else is registered in the model (UNSPECIFIED and unknown enum values do not decode) -/
theorem registered_iff (t : TypeName) : (genericCount t).isSome = true ↔ t ∈ registeredNames := by
  cases t <;> simp [genericCount, registeredNames]

/-- `EvaluateTupleCondition`: guards in order, the returns, and **the merge order** — the request fields
are the first map, the tuple's stored fields are appended after them, then `Evaluate` gets them in
that order -/
theorem tie_evalTuple :
    Gen.Condition.evalTupleIfs =
      ["tupleKey.GetCondition().GetName() == \"\"",
       "evaluableCondition == nil || tupleKey.GetCondition().GetName() != evaluableCondition.GetName()",
       "context != nil", "tupleContext != nil", "err != nil",
       "len(conditionResult.MissingParameters) > 0"] ∧
    Gen.Condition.evalTupleReturns =
      ["true, nil", "false, err", "false, err", "false, condition.NewEvaluationError(…)",
       "conditionResult.ConditionMet, nil"] ∧
    Gen.Condition.evalTupleAssigns.drop 3 =
      ["contextFields := []map[string]*structpb.Value{ {}, }",
       "contextFields = []map[string]*structpb.Value{context.GetFields()}",
       "tupleContext := tupleKey.GetCondition().GetContext()",
       "contextFields = append(contextFields, tupleContext.GetFields())",
       "conditionResult, err := evaluableCondition.Evaluate(ctx, contextFields...)"] := by decide

/-- `Evaluate`: clone the first map, copy the later ones over it in order, cast, collect the unresolved
declared parameters, evaluate; unknown ⇒ `ConditionMet: false` -/
theorem tie_evaluate :
    Gen.Condition.evaluateAssigns.drop 1 =
      ["err := e.Compile()", "contextFields := contextMaps[0]",
       "contextFields = map[string]*structpb.Value{}",
       "clonedContextFields := maps.Clone(contextFields)",
       "typedParams, err := e.CastContextToTypedParameters(clonedContextFields)",
       "activation, err := e.celEnv.PartialVars(typedParams)",
       "_, ok := activation.ResolveName(key)",
       "missingParameters = append(missingParameters, key)",
       "out, details, err := e.celProgram.ContextEval(ctx, activation)",
       "cost := details.ActualCost()", "evaluationCost = *cost",
       "conditionMetVal, err := out.ConvertToNative(reflect.TypeOf(false))",
       "conditionMet, ok := conditionMetVal.(bool)"] ∧
    Gen.Condition.evaluateRanges =
      ["_, fields := range contextMaps[1:]", "key, _ := range e.GetParameters()"] ∧
    Gen.Condition.evaluateIfs =
      ["err := e.Compile(); err != nil", "contextFields == nil", "err != nil", "err != nil",
       "_, ok := activation.ResolveName(key); ok", "err != nil", "details != nil", "cost != nil",
       "celtypes.IsUnknown(out)", "err != nil", "!ok"] ∧
    Gen.Condition.evaluateCalls.filter (fun c => c = "maps.Clone" ∨ c = "maps.Copy" ∨
        c = "e.CastContextToTypedParameters" ∨ c = "e.celProgram.ContextEval" ∨ c = "activation.ResolveName") =
      ["maps.Clone", "maps.Copy", "e.CastContextToTypedParameters", "activation.ResolveName",
       "e.celProgram.ContextEval"] ∧
    Gen.Condition.evaluateReturns =
      ["emptyEvaluationResult, NewEvaluationError(…)", "emptyEvaluationResult, NewEvaluationError(…)",
       "emptyEvaluationResult, NewEvaluationError(…)", "emptyEvaluationResult, NewEvaluationError(…)",
       "EvaluationResult{ ConditionMet: false, MissingParameters: missingParameters, Cost: evaluationCost, }, nil",
       "emptyEvaluationResult, NewEvaluationError(…)", "emptyEvaluationResult, NewEvaluationError(…)",
       "EvaluationResult{ ConditionMet: conditionMet, MissingParameters: missingParameters, Cost: evaluationCost, }, nil"] := by
  decide

/-- `CastContextToTypedParameters`: empty context ⇒ `nil, nil`; no declared parameters ⇒ error; the loop
ranges over the *declared* parameters, skips absent ones (`continue`), decodes, converts
`contextValue.AsInterface()` and fails on the first error -/
theorem tie_cast :
    Gen.Condition.castIfs =
      ["len(contextMap) == 0", "len(parameterTypes) == 0", "!ok", "err != nil", "err != nil"] ∧
    Gen.Condition.castReturns =
      ["nil, nil", "nil, &ParameterTypeError{…}", "nil, &ParameterTypeError{…}",
       "nil, &ParameterTypeError{…}", "converted, nil"] ∧
    Gen.Condition.castAssigns =
      ["parameterTypes := e.GetParameters()", "converted := make(map[string]any, len(contextMap))",
       "contextValue, ok := contextMap[parameterKey]",
       "varType, err := types.DecodeParameterType(paramTypeRef)",
       "convertedParam, err := varType.ConvertValue(contextValue.AsInterface())",
       "converted[parameterKey] = convertedParam"] ∧
    Gen.Condition.castRanges = ["parameterKey, paramTypeRef := range parameterTypes"] := by decide

/-- `Compile()` reports the error of `compile()` only inside `compileOnce.Do` (what
`evaluateAfterFailedCompile` models) -/
theorem tie_compile_once :
    Gen.Condition.compileOnceCalls = ["e.compileOnce.Do", "e.compile"] ∧
    Gen.Condition.compileOnceAssigns = ["err := e.compile()", "compileErr = err"] ∧
    Gen.Condition.compileOnceReturns = ["", "compileErr"] := by decide

/-- `numericTypeConverterFunc`: `value.(T)` first, then float64 through `big.NewFloat`, then strings through
`big.ParseFloat(·, 10, 64, 0)`; per kind: int64 needs `IsInt` and takes `Int64()`; uint64 additionally
rejects `< 0`; float64 rejects accuracy Above/Below -/
theorem tie_numeric :
    Gen.Condition.numericAssigns =
      ["v, ok := value.(T)", "floatValue, ok := value.(float64)", "bigFloat := big.NewFloat(floatValue)",
       "stringValue, ok := value.(string)", "f, _, err := big.ParseFloat(stringValue, 10, 64, 0)",
       "bigFloat = f", "n := *new(T)", "numericValue, _ := bigFloat.Int64()",
       "numericValue, _ := bigFloat.Int64()", "numericValue, a := bigFloat.Float64()"] ∧
    Gen.Condition.numericIfs =
      ["ok", "!ok", "!ok", "err != nil", "!bigFloat.IsInt()", "!bigFloat.IsInt()", "numericValue < 0",
       "a == big.Above || a == big.Below"] ∧
    Gen.Condition.numericCases =
      ["int64: !bigFloat.IsInt()", "uint64: !bigFloat.IsInt() ; numericValue < 0",
       "float64: a == big.Above || a == big.Below", "default: "] ∧
    Gen.Condition.parseFloatArgs = "stringValue, 10, 64, 0" ∧
    Gen.Condition.numericReturns =
      ["v, nil", "nil, fmt.Errorf(…)", "nil, fmt.Errorf(…)", "nil, fmt.Errorf(…)", "numericValue, nil",
       "nil, fmt.Errorf(…)", "nil, fmt.Errorf(…)", "uint64(…), nil", "nil, fmt.Errorf(…)",
       "numericValue, nil", "nil, fmt.Errorf(…)"] := by decide

/-- regression tie for F14: no error path of the numeric converter renders the `big.Float` with
`String()` directly (quadratic in the decimal exponent) -/
theorem tie_numeric_no_bigfloat_string :
    Gen.Condition.numericCalls.contains "bigFloat.String" = false := by decide

/-- the other converters: one type assertion, one stdlib call -/
theorem tie_converters :
    Gen.Condition.primitiveAssigns = ["v, ok := value.(T)"] ∧ Gen.Condition.primitiveIfs = ["!ok"] ∧
    Gen.Condition.anyConvReturns = ["value, nil"] ∧
    Gen.Condition.durationAssigns = ["v, ok := value.(string)", "d, err := time.ParseDuration(v)"] ∧
    Gen.Condition.timestampAssigns = ["v, ok := value.(string)", "d, err := time.Parse(time.RFC3339, v)"] ∧
    Gen.Condition.ipaddressAssigns =
      ["ipaddr, ok := value.(IPAddress)", "v, ok := value.(string)", "d, err := ParseIPAddress(v)"] ∧
    Gen.Condition.parseIPCalls = ["netip.ParseAddr", "addr.Unmap"] ∧
    Gen.Condition.listConvAssigns =
      ["v, ok := value.([]any)", "converted := make([]any, len(v))",
       "convertedItem, err := genericTypes[0].ConvertValue(item)", "converted[index] = convertedItem"] ∧
    Gen.Condition.mapConvAssigns =
      ["v, ok := value.(map[string]any)", "converted := make(map[string]any, len(v))",
       "convertedItem, err := genericTypes[0].ConvertValue(item)", "converted[key] = convertedItem"] ∧
    Gen.Condition.listConvIfs = ["!ok", "err != nil"] ∧ Gen.Condition.mapConvIfs = ["!ok", "err != nil"] ∧
    Gen.Condition.listConvRanges = ["index, item := range v"] ∧
    Gen.Condition.mapConvRanges = ["key, item := range v"] ∧
    Gen.Condition.convertValueCalls = ["pt.typedParamConverter"] := by decide

/-- `DecodeParameterType`: unknown type name, wrong number of generic types, recursive decode -/
theorem tie_decode :
    Gen.Condition.decodeIfs =
      ["!ok", "len(conditionParamType.GetGenericTypes()) != int(paramTypedef.genericTypeCount)", "err != nil"] ∧
    Gen.Condition.decodeAssigns =
      ["paramTypedef, ok := paramTypeDefinitions[conditionParamType.GetTypeName()]",
       "genericTypes := make([]ParameterType, 0, paramTypedef.genericTypeCount)",
       "genericType, err := DecodeParameterType(encodedGenericType)",
       "genericTypes = append(genericTypes, *genericType)"] := by decide

/-! ## Non-vacuity: the hypotheses of the main theorems are met by concrete values -/

/-- a toy CEL: the expression is a parameter name; its value must be a bool -/
def toyCel : Cel String where
  compile := fun _ _ => true
  eval := fun e env => match env e with
    | some (.bool b) => .bool b
    | some _ => .other
    | none => .unknown

def toyCond : Cond String := { name := "c", params := [("x", .mk .bool []), ("y", .mk .int [])], expr := "x" }
def toyReq : Ctx := [("x", .bool false), ("y", .num 0x401C000000000000)]   -- x = false, y = 7
def toyTup : Ctx := [("x", .bool true)]                                     -- stored x = true

/-- stored `x = true` overrides the request's `x = false`; `y` comes from the request -/
example : evalTuple noStd toyCel "c" (some toyTup) (some toyCond) (some toyReq) = .ok true := by rfl
/-- without the stored context the request's value is used -/
example : evalTuple noStd toyCel "c" none (some toyCond) (some toyReq) = .ok false := by rfl
/-- `y` is declared, not referenced by the expression, and absent: an error that names it -/
example : evalTuple noStd toyCel "c" (some toyTup) (some toyCond) none = .error (.missing ["y"]) := by rfl
/-- `y` mistyped -/
example : evalTuple noStd toyCel "c" (some toyTup) (some toyCond) (some [("y", .str [97])]) = .error .paramType := by rfl
/-- the hypotheses of `evalTuple_spec` hold for the first example -/
example : AllPresent toyCond.params (mergedCtx (some toyReq) (some toyTup)) := by
  intro k r hm
  simp [toyCond] at hm
  rcases hm with ⟨rfl, _⟩ | ⟨rfl, _⟩ <;> decide
example : getLast (mergedCtx (some toyReq) (some toyTup)) "x" = some (.bool true) :=
  stored_wins _ _ toyTup "x" _ rfl (by rfl)


end OpenFGAVerif.C25
