/-
C25 — Condition evaluation follows the declared CEL semantics.

Model: `Model.Condition` (context merge, parameter typing, missing parameters, the converters of
internal/condition/types with math/big's decimal parsing).  cel-go and the stdlib parsers of
durations / RFC 3339 timestamps / IP addresses are abstract parameters (`Cel`, `Std`): the theorems
hold for every instance, no law about them is assumed.
-/
import OpenFGAVerif.Model.Condition
namespace OpenFGAVerif.C25
open OpenFGAVerif.Model.Condition

theorem getLast_append {α : Type} (a b : List (String × α)) (k : String) :
    getLast (a ++ b) k = (match getLast b k with | some v => some v | none => getLast a k) := by
  induction a with
  | nil => simp [getLast]; split <;> simp_all
  | cons x xs ih =>
    obtain ⟨k', v⟩ := x
    simp only [List.cons_append, getLast, ih]
    cases hb : getLast b k <;> simp

theorem getLast_mem {α : Type} (l : List (String × α)) (k : String) (v : α) (h : getLast l k = some v) :
    (k, v) ∈ l := by
  induction l with
  | nil => simp [getLast] at h
  | cons x xs ih =>
    obtain ⟨k', v'⟩ := x
    simp only [getLast] at h
    cases hr : getLast xs k with
    | some w => rw [hr] at h; simp at h; subst h; exact List.mem_cons_of_mem _ (ih hr)
    | none =>
      rw [hr] at h; simp at h
      obtain ⟨rfl, rfl⟩ := h
      exact List.mem_cons_self

theorem getLast_isSome_of_mem {α : Type} (l : List (String × α)) (k : String) (v : α) (h : (k, v) ∈ l) :
    (getLast l k).isSome = true := by
  induction l with
  | nil => simp at h
  | cons x xs ih =>
    obtain ⟨k', v'⟩ := x
    simp only [getLast]
    cases hr : getLast xs k with
    | some w => simp
    | none =>
      rcases List.mem_cons.mp h with h | h
      · simp at h; simp [h.1]
      · have := ih h; rw [hr] at this; simp at this

/-! ## the typed environment, declaratively -/

/-- what the CEL activation must contain for name `k`: the merged context's value for `k`,
converted to the type the condition declares for `k`; nothing for undeclared or absent names -/
def specEnv (std : Std) (params : List (String × TypeRef)) (m : Ctx) (k : String) : Option TVal :=
  match getLast params k with
  | none => none
  | some r =>
    match getLast m k with
    | none => none
    | some pv =>
      match decode r with
      | none => none
      | some t =>
        match convert std t (asInterface pv) with
        | .ok tv => some tv
        | _ => none

/-- every declared parameter that is present converts to its declared type -/
def AllConvert (std : Std) (params : List (String × TypeRef)) (m : Ctx) : Prop :=
  ∀ k r pv, (k, r) ∈ params → getLast m k = some pv →
    ∃ t tv, decode r = some t ∧ convert std t (asInterface pv) = .ok tv

/-- every declared parameter is present in the merged context -/
def AllPresent (params : List (String × TypeRef)) (m : Ctx) : Prop :=
  ∀ k r, (k, r) ∈ params → (getLast m k).isSome = true

theorem castLoop_ok_allConvert (std : Std) (m : Ctx) (params : List (String × TypeRef)) (typed)
    (h : castLoop std m params = .ok typed) : AllConvert std params m := by
  induction params generalizing typed with
  | nil => intro k r pv hm; simp at hm
  | cons x xs ih =>
    obtain ⟨k0, r0⟩ := x
    intro k r pv hm hg
    simp only [castLoop] at h
    rcases List.mem_cons.mp hm with hm | hm
    · simp at hm; obtain ⟨rfl, rfl⟩ := hm
      rw [hg] at h; simp only at h
      cases hd : decode r with
      | none => rw [hd] at h; simp at h
      | some t =>
        rw [hd] at h; simp only at h
        cases hc : convert std t (asInterface pv) with
        | typeErr => rw [hc] at h; simp at h
        | panic => rw [hc] at h; simp at h
        | ok tv => exact ⟨t, tv, rfl, hc⟩
    · cases hg0 : getLast m k0 with
      | none => rw [hg0] at h; exact ih _ h k r pv hm hg
      | some pv0 =>
        rw [hg0] at h; simp only at h
        cases hd : decode r0 with
        | none => rw [hd] at h; simp at h
        | some t =>
          rw [hd] at h; simp only at h
          cases hc : convert std t (asInterface pv0) with
          | typeErr => rw [hc] at h; simp at h
          | panic => rw [hc] at h; simp at h
          | ok tv =>
            rw [hc] at h; simp only at h
            cases hl : castLoop std m xs with
            | typeErr => rw [hl] at h; simp at h
            | panic => rw [hl] at h; simp at h
            | ok tvs => exact ih _ hl k r pv hm hg

theorem castLoop_total (std : Std) (m : Ctx) (params : List (String × TypeRef))
    (h : AllConvert std params m) : ∃ typed, castLoop std m params = .ok typed := by
  induction params with
  | nil => exact ⟨[], rfl⟩
  | cons x xs ih =>
    obtain ⟨k0, r0⟩ := x
    have hxs : AllConvert std xs m := fun k r pv hm hg => h k r pv (List.mem_cons_of_mem _ hm) hg
    obtain ⟨tvs, htvs⟩ := ih hxs
    simp only [castLoop]
    cases hg0 : getLast m k0 with
    | none => exact ⟨tvs, htvs⟩
    | some pv0 =>
      obtain ⟨t, tv, hd, hc⟩ := h k0 r0 pv0 List.mem_cons_self hg0
      simp only [hd, hc, htvs]
      exact ⟨_, rfl⟩

/-- the converted map read back: exactly `specEnv` -/
theorem castLoop_env (std : Std) (m : Ctx) (params : List (String × TypeRef)) (typed)
    (h : castLoop std m params = .ok typed) (k : String) :
    getLast typed k = specEnv std params m k := by
  induction params generalizing typed with
  | nil => simp [castLoop] at h; subst h; simp [getLast, specEnv]
  | cons x xs ih =>
    obtain ⟨k0, r0⟩ := x
    have hall := castLoop_ok_allConvert std m _ typed h
    simp only [castLoop] at h
    cases hg0 : getLast m k0 with
    | none =>
      rw [hg0] at h
      rw [ih _ h]
      simp only [specEnv, getLast]
      cases hx : getLast xs k with
      | some r => simp
      | none =>
        by_cases hk : k0 = k
        · subst hk; simp [hg0]
        · simp [hk]
    | some pv0 =>
      rw [hg0] at h; simp only at h
      cases hd : decode r0 with
      | none => rw [hd] at h; simp at h
      | some t =>
        rw [hd] at h; simp only at h
        cases hc : convert std t (asInterface pv0) with
        | typeErr => rw [hc] at h; simp at h
        | panic => rw [hc] at h; simp at h
        | ok tv =>
          rw [hc] at h; simp only at h
          cases hl : castLoop std m xs with
          | typeErr => rw [hl] at h; simp at h
          | panic => rw [hl] at h; simp at h
          | ok tvs =>
            rw [hl] at h; simp at h; subst h
            simp only [getLast, ih _ hl]
            simp only [specEnv, getLast]
            cases hx : getLast xs k with
            | some r =>
              simp only
              -- declared again later: that occurrence was converted too
              cases hgk : getLast m k with
              | none =>
                have hne : ¬ k0 = k := by intro e; subst e; rw [hg0] at hgk; simp at hgk
                simp [hne]
              | some pv =>
                obtain ⟨t', tv', hd', hc'⟩ := hall k r pv (List.mem_cons_of_mem _ (getLast_mem _ _ _ hx)) hgk
                simp [hd', hc']
            | none =>
              simp only
              by_cases hk : k0 = k
              · subst hk; simp [hg0, hd, hc]
              · simp [hk]


/-! ## the merge: stored context wins -/

/-- the context `EvaluateTupleCondition` evaluates over: request fields, then the tuple's stored
fields copied over them -/
def mergedCtx (req tup : Option Ctx) : Ctx := (req.getD []) ++ (tup.getD [])

theorem mergeCtx_eq (req tup : Option Ctx) :
    mergeCtx (req.getD []) tup.toList = mergedCtx req tup := by
  cases req <;> cases tup <;> simp [mergeCtx, mergedCtx]

/-- **stored wins**: a parameter present in the tuple's stored context is seen with the stored value,
whatever the request says -/
theorem stored_wins (req tup : Option Ctx) (t : Ctx) (k : String) (v : PVal)
    (ht : tup = some t) (h : getLast t k = some v) : getLast (mergedCtx req tup) k = some v := by
  subst ht; simp [mergedCtx, getLast_append, h]

/-- a parameter only the request supplies is seen with the request's value -/
theorem request_only (req tup : Option Ctx) (k : String)
    (h : getLast (tup.getD []) k = none) :
    getLast (mergedCtx req tup) k = getLast (req.getD []) k := by
  simp [mergedCtx, getLast_append, h]

/-- the general n-ary merge of `Evaluate`: the last map that binds `k` wins -/
theorem mergeCtx_last_wins (first : Ctx) (rest : List Ctx) (last : Ctx) (k : String) (v : PVal)
    (h : getLast last k = some v) : getLast (mergeCtx first (rest ++ [last])) k = some v := by
  simp [mergeCtx, List.foldl_append, getLast_append, h]

/-! ## CastContextToTypedParameters -/

theorem specEnv_nil (std : Std) (params : List (String × TypeRef)) (k : String) :
    specEnv std params [] k = none := by
  unfold specEnv; cases getLast params k <;> simp [getLast]

theorem castContext_ok (std : Std) (params : List (String × TypeRef)) (m : Ctx) (typed)
    (h : castContext std params m = .ok typed) :
    (m = [] ∨ params ≠ []) ∧ AllConvert std params m ∧ getLast typed = specEnv std params m := by
  unfold castContext at h
  cases m with
  | nil =>
    simp at h; subst h
    refine ⟨Or.inl rfl, ?_, ?_⟩
    · intro k r pv _ hg; simp [getLast] at hg
    · funext k; simp [getLast, specEnv_nil]
  | cons x xs =>
    cases params with
    | nil => simp at h
    | cons p ps =>
      simp at h
      exact ⟨Or.inr (by simp), castLoop_ok_allConvert _ _ _ _ h, funext (castLoop_env _ _ _ _ h)⟩

theorem castContext_total (std : Std) (params : List (String × TypeRef)) (m : Ctx)
    (hne : m = [] ∨ params ≠ []) (h : AllConvert std params m) :
    ∃ typed, castContext std params m = .ok typed := by
  unfold castContext
  cases m with
  | nil => exact ⟨[], by simp⟩
  | cons x xs =>
    cases params with
    | nil => simp at hne
    | cons p ps => simpa using castLoop_total std _ _ h

/-- a type error of the cast is exactly: the context is non-empty and either the condition declares
no parameter or some present declared value does not convert (no panic arises, see `pipeline_no_panic`) -/
theorem castContext_fails_iff (std : Std) (params : List (String × TypeRef)) (m : Ctx) :
    (∀ typed, castContext std params m ≠ .ok typed) ↔ ¬ ((m = [] ∨ params ≠ []) ∧ AllConvert std params m) := by
  constructor
  · intro h ⟨h1, h2⟩
    obtain ⟨typed, ht⟩ := castContext_total std params m h1 h2
    exact h typed ht
  · intro h typed ht
    obtain ⟨h1, h2, _⟩ := castContext_ok std params m typed ht
    exact h ⟨h1, h2⟩

/-! ## Evaluate -/

/-- the declared parameters that the activation does not resolve -/
def missingOf (std : Std) (params : List (String × TypeRef)) (m : Ctx) : List String :=
  (params.map (·.1)).filter (fun k => (specEnv std params m k).isNone)

/-- **Evaluate, characterised**: it succeeds exactly when the condition compiles, the cast succeeds
and CEL returns a bool or unknown; it then reports *every* declared parameter that is absent
(whether or not the expression refers to it) and `ConditionMet = false` for unknown. -/
theorem evaluate_ok_iff {E : Type} (std : Std) (cel : Cel E) (c : Cond E) (first : Ctx) (rest : List Ctx)
    (res : EvalResult) :
    evaluate std cel c first rest = .ok res ↔
      compileOk cel c = true ∧
      (mergeCtx first rest = [] ∨ c.params ≠ []) ∧
      AllConvert std c.params (mergeCtx first rest) ∧
      res.missing = missingOf std c.params (mergeCtx first rest) ∧
      (cel.eval c.expr (specEnv std c.params (mergeCtx first rest)) = .bool res.met ∨
        (cel.eval c.expr (specEnv std c.params (mergeCtx first rest)) = .unknown ∧ res.met = false)) := by
  unfold evaluate
  cases hc : compileOk cel c with
  | false => simp
  | true =>
    simp only [Bool.not_true, Bool.false_eq_true, if_false, true_and]
    cases hcast : castContext std c.params (mergeCtx first rest) with
    | typeErr =>
      simp only
      constructor
      · intro h; simp at h
      · rintro ⟨h1, h2, _⟩
        obtain ⟨typed, ht⟩ := castContext_total std _ _ h1 h2
        rw [ht] at hcast; simp at hcast
    | panic =>
      simp only
      constructor
      · intro h; simp at h
      · rintro ⟨h1, h2, _⟩
        obtain ⟨typed, ht⟩ := castContext_total std _ _ h1 h2
        rw [ht] at hcast; simp at hcast
    | ok typed =>
      obtain ⟨h1, h2, henv⟩ := castContext_ok std _ _ _ hcast
      simp only [henv, missingOf]
      cases hev : cel.eval c.expr (specEnv std c.params (mergeCtx first rest)) with
      | err => simp [h1, h2]
      | other => simp [h1, h2]
      | unknown =>
        simp only
        constructor
        · intro h; simp at h; subst h; simp [h1, h2]
        · rintro ⟨_, _, hm, hr⟩
          cases res; simp at hm hr; simp [hm, hr]
      | bool b =>
        simp only
        constructor
        · intro h; simp at h; subst h; simp [h1, h2]
        · rintro ⟨_, _, hm, hr⟩
          cases res; simp at hm hr; simp [hm, hr]

/-! ## EvaluateTupleCondition -/

theorem specEnv_isSome_present (std : Std) (params : List (String × TypeRef)) (m : Ctx) (k : String)
    (h : (specEnv std params m k).isSome = true) : (getLast m k).isSome = true := by
  unfold specEnv at h
  cases hp : getLast params k with
  | none => rw [hp] at h; simp at h
  | some r =>
    rw [hp] at h; simp only at h
    cases hm : getLast m k with
    | none => rw [hm] at h; simp at h
    | some pv => simp

theorem missingOf_nil_iff (std : Std) (params : List (String × TypeRef)) (m : Ctx)
    (hc : AllConvert std params m) : missingOf std params m = [] ↔ AllPresent params m := by
  unfold missingOf AllPresent
  rw [List.filter_eq_nil_iff]
  constructor
  · intro h k r hm
    have := h k (List.mem_map.mpr ⟨(k, r), hm, rfl⟩)
    simp at this
    exact specEnv_isSome_present std params m k (by
      cases hs : specEnv std params m k with
      | none => exact absurd hs this
      | some _ => rfl)
  · intro h k hk
    obtain ⟨⟨k', r⟩, hm, rfl⟩ := List.mem_map.mp hk
    simp only
    have hsome := getLast_isSome_of_mem params k' r hm
    cases hp : getLast params k' with
    | none => rw [hp] at hsome; simp at hsome
    | some r' =>
      have hm' := getLast_mem _ _ _ hp
      have hpres := h k' r' hm'
      cases hg : getLast m k' with
      | none => rw [hg] at hpres; simp at hpres
      | some pv =>
        obtain ⟨t, tv, hd, hcv⟩ := hc k' r' pv hm' hg
        simp [specEnv, hp, hg, hd, hcv]

/-- **Main theorem.** For a tuple that carries a condition (`condName ≠ ""`),
`EvaluateTupleCondition` returns `(b, nil)` **iff** the condition handed in is the tuple's condition,
it compiles, *every* declared parameter is present in the request context overridden by the stored
context, every present declared value converts to its declared type, and CEL — run on exactly
those converted values — yields `b` (an "unknown" without a missing parameter would be reported as
`false`; cel-go does not produce it, the model does not assume that). -/
theorem evalTuple_spec {E : Type} (std : Std) (cel : Cel E) (condName : String) (tup : Option Ctx)
    (ec : Option (Cond E)) (req : Option Ctx) (b : Bool) (hn : condName ≠ "") :
    evalTuple std cel condName tup ec req = .ok b ↔
      ∃ c, ec = some c ∧ c.name = condName ∧ compileOk cel c = true ∧
        (mergedCtx req tup = [] ∨ c.params ≠ []) ∧
        AllPresent c.params (mergedCtx req tup) ∧
        AllConvert std c.params (mergedCtx req tup) ∧
        (cel.eval c.expr (specEnv std c.params (mergedCtx req tup)) = .bool b ∨
          (cel.eval c.expr (specEnv std c.params (mergedCtx req tup)) = .unknown ∧ b = false)) := by
  unfold evalTuple
  simp only [hn, if_false]
  cases ec with
  | none => simp
  | some c =>
    by_cases hname : condName = c.name
    · subst hname
      simp only [ne_eq, not_true_eq_false, if_false, mergeCtx_eq]
      cases hev : evaluate std cel c (req.getD []) tup.toList with
      | error e =>
        simp only
        constructor
        · intro h; simp at h
        · rintro ⟨c', hc', _, h1, h2, h3, h4, h5⟩
          simp at hc'; subst hc'
          have : evaluate std cel c (req.getD []) tup.toList = .ok ⟨b, []⟩ := by
            rw [evaluate_ok_iff, mergeCtx_eq]
            exact ⟨h1, h2, h4, ((missingOf_nil_iff std _ _ h4).mpr h3).symm, h5⟩
          rw [this] at hev; simp at hev
      | ok r =>
        have hr := (evaluate_ok_iff std cel c _ _ r).mp hev
        rw [mergeCtx_eq] at hr
        obtain ⟨h1, h2, h4, hmiss, h5⟩ := hr
        simp only
        by_cases hl : r.missing.length > 0
        · simp only [hl, if_true]
          constructor
          · intro h; simp at h
          · rintro ⟨c', hc', _, _, _, h3, _, _⟩
            simp at hc'; subst hc'
            rw [hmiss, (missingOf_nil_iff std _ _ h4).mpr h3] at hl
            simp at hl
        · simp only [hl, if_false]
          have hnil : r.missing = [] := by
            cases hm : r.missing with
            | nil => rfl
            | cons a as => rw [hm] at hl; simp at hl
          have h3 : AllPresent c.params (mergedCtx req tup) :=
            (missingOf_nil_iff std _ _ h4).mp (by rw [← hmiss, hnil])
          constructor
          · intro h; simp at h; subst h
            exact ⟨c, rfl, rfl, h1, h2, h3, h4, h5⟩
          · rintro ⟨c', hc', _, _, _, _, _, h5'⟩
            simp at hc'; subst hc'
            rcases h5 with h5 | ⟨h5, h5b⟩ <;> rcases h5' with h5' | ⟨h5', h5b'⟩
            · rw [h5] at h5'; simp at h5'; simp [h5']
            · rw [h5] at h5'; simp at h5'
            · rw [h5] at h5'; simp at h5'
            · simp [h5b, h5b']
    · simp only [ne_eq, hname, not_false_eq_true, if_true]
      constructor
      · intro h; simp at h
      · rintro ⟨c', hc', hnm, _⟩
        simp at hc'; subst hc'
        exact absurd hnm.symm hname

/-- a tuple without a condition is satisfied without looking at anything -/
theorem evalTuple_unconditioned {E : Type} (std : Std) (cel : Cel E) (tup : Option Ctx)
    (ec : Option (Cond E)) (req : Option Ctx) : evalTuple std cel "" tup ec req = .ok true := by
  simp [evalTuple]

/-- **`true` never arises from an error**: a satisfied conditional tuple means CEL itself said `true`
on the merged, converted context with nothing missing -/
theorem true_only_from_cel_true {E : Type} (std : Std) (cel : Cel E) (condName : String) (tup : Option Ctx)
    (ec : Option (Cond E)) (req : Option Ctx) (hn : condName ≠ "")
    (h : evalTuple std cel condName tup ec req = .ok true) :
    ∃ c, ec = some c ∧ AllPresent c.params (mergedCtx req tup) ∧
      cel.eval c.expr (specEnv std c.params (mergedCtx req tup)) = .bool true := by
  obtain ⟨c, hc, _, _, _, h3, _, h5⟩ := (evalTuple_spec std cel condName tup ec req true hn).mp h
  rcases h5 with h5 | ⟨_, h5⟩
  · exact ⟨c, hc, h3, h5⟩
  · simp at h5

/-- **missing is an error**: if a declared parameter — referenced by the expression or not — is absent
from both contexts, the result is an error for every CEL behaviour (short-circuiting included),
never `true` or `false` -/
theorem missing_is_error {E : Type} (std : Std) (cel : Cel E) (c : Cond E) (tup req : Option Ctx)
    (k : String) (r : TypeRef) (hn : c.name ≠ "") (hk : (k, r) ∈ c.params)
    (habs : getLast (mergedCtx req tup) k = none) :
    ∃ e, evalTuple std cel c.name tup (some c) req = .error e := by
  cases h : evalTuple std cel c.name tup (some c) req with
  | error e => exact ⟨e, rfl⟩
  | ok b =>
    obtain ⟨c', hc', _, _, _, h3, _, _⟩ := (evalTuple_spec std cel c.name tup (some c) req b hn).mp h
    simp at hc'; subst hc'
    have := h3 k r hk
    rw [habs] at this; simp at this

/-- …and when nothing else fails first, the error is the missing-parameter error and names `k` -/
theorem missing_is_reported {E : Type} (std : Std) (cel : Cel E) (c : Cond E) (tup req : Option Ctx)
    (k : String) (r : TypeRef) (hn : c.name ≠ "") (hk : (k, r) ∈ c.params)
    (habs : getLast (mergedCtx req tup) k = none)
    (res : EvalResult)
    (hev : evaluate std cel c (req.getD []) tup.toList = .ok res) :
    evalTuple std cel c.name tup (some c) req = .error (.missing res.missing) ∧ k ∈ res.missing := by
  have hr := (evaluate_ok_iff std cel c _ _ res).mp hev
  rw [mergeCtx_eq] at hr
  obtain ⟨_, _, _, hmiss, _⟩ := hr
  have hkm : k ∈ res.missing := by
    rw [hmiss]; unfold missingOf
    refine List.mem_filter.mpr ⟨List.mem_map.mpr ⟨(k, r), hk, rfl⟩, ?_⟩
    cases hs : specEnv std c.params (mergedCtx req tup) k with
    | none => rfl
    | some _ =>
      have := specEnv_isSome_present std c.params _ k (by rw [hs]; rfl)
      rw [habs] at this; simp at this
  refine ⟨?_, hkm⟩
  unfold evalTuple
  simp only [hn, if_false, ne_eq, not_true_eq_false, hev]
  have : res.missing.length > 0 := List.length_pos_of_mem hkm
  simp [this]

/-- a value that does not convert to its declared type is an error as well -/
theorem mistyped_is_error {E : Type} (std : Std) (cel : Cel E) (c : Cond E) (tup req : Option Ctx)
    (k : String) (r : TypeRef) (pv : PVal) (hn : c.name ≠ "") (hk : (k, r) ∈ c.params)
    (hpres : getLast (mergedCtx req tup) k = some pv)
    (hbad : ∀ t tv, decode r = some t → convert std t (asInterface pv) ≠ .ok tv) :
    ∃ e, evalTuple std cel c.name tup (some c) req = .error e := by
  cases h : evalTuple std cel c.name tup (some c) req with
  | error e => exact ⟨e, rfl⟩
  | ok b =>
    obtain ⟨c', hc', _, _, _, _, h4, _⟩ := (evalTuple_spec std cel c.name tup (some c) req b hn).mp h
    simp at hc'; subst hc'
    obtain ⟨t, tv, hd, hcv⟩ := h4 k r pv hk hpres
    exact absurd hcv (hbad t tv hd)

end OpenFGAVerif.C25
