/-
C26 — API access control allows exactly what the control store grants.

Model: `Model.Authz` (authorizer, server wrappers, ListStores, handler skeletons).
Data regenerated from the Go source on every run: `Gen.Authz`.

Status of the statements
  * `authorize_spec`, `authorize_system_spec`, `server_call_spec`, `write_call_spec`: full strength, for every
    nested-Check function, every module list and every goroutine schedule.
  * `method_relation_table`, `handlers_authorize_first`, `handlers_guard_method`: `decide` over the extracted tables.
  * `FullNoReadBeforeAuthz` (no datastore read at all before authorization) does NOT hold on the unchanged tree
    (`Write` and `ActionSearch` resolve the typesystem first): negation witness `write_reads_model_before_authz`.
  * `liststores_filter`: full strength for the handler of the checked tree (the guard added by /repo commit 31b7057
    is found by the extractor: `tie_liststores_guard`).  Before that commit the statement was false (finding F3):
    `liststores_leak_unfixed` is the proved negation witness for the handler without the guard, kept as
    documentation; `liststores_filter_partial` (non-empty granted list) holds for both variants.
-/
import OpenFGAVerif.Model.Authz
import OpenFGAVerif.Gen.Authz

namespace OpenFGAVerif.C26
open OpenFGAVerif.Model.Authz

/-! ## Ties to the regenerated data -/

/-- the relation each API method needs, as documented (docs: "Access Control" / the reference model) -/
def documentedRelation : List (String × String) := [
  ("ReadAuthorizationModel", "can_call_read_authorization_models"),
  ("ReadAuthorizationModels", "can_call_read_authorization_models"),
  ("Read", "can_call_read"),
  ("Write", "can_call_write"),
  ("ListObjects", "can_call_list_objects"),
  ("StreamedListObjects", "can_call_list_objects"),
  ("Check", "can_call_check"),
  ("BatchCheck", "can_call_check"),
  ("ListUsers", "can_call_list_users"),
  ("WriteAssertions", "can_call_write_assertions"),
  ("ReadAssertions", "can_call_read_assertions"),
  ("WriteAuthorizationModel", "can_call_write_authorization_models"),
  ("ListStores", "can_call_list_stores"),
  ("CreateStore", "can_call_create_stores"),
  ("GetStore", "can_call_get_store"),
  ("DeleteStore", "can_call_delete_store"),
  ("Expand", "can_call_expand"),
  ("ReadChanges", "can_call_read_changes")]

set_option maxRecDepth 100000 in
/-- Every API method maps to its documented relation, every `apimethod` constant is covered, nothing else is in
the switch, and the `default:` clause rejects. -/
theorem method_relation_table :
    (∀ p ∈ documentedRelation, lookupRelation Gen.Authz.methodRelation p.1 = some p.2) ∧
    (∀ m ∈ Gen.Authz.apiMethods, (lookupRelation documentedRelation m).isSome = true) ∧
    (∀ p ∈ Gen.Authz.methodRelation, lookupRelation documentedRelation p.1 = some p.2) ∧
    Gen.Authz.getRelationDefaultRejects = true := by decide

/-- A method that is not in the switch is rejected (`default:`). -/
theorem lookupRelation_unknown (tbl : List (String × String)) (m : String) (h : m ∉ tbl.map (·.1)) :
    lookupRelation tbl m = none := by
  induction tbl with
  | nil => rfl
  | cons p rest ih =>
    obtain ⟨k, v⟩ := p
    have hk : k ≠ m := fun e => h (by simp [e])
    have hr : m ∉ rest.map (·.1) := fun mm => h (by simp [mm])
    simp [lookupRelation, hk, ih hr]

theorem lookupRelation_mem (tbl : List (String × String)) (m r : String) (h : lookupRelation tbl m = some r) :
    (m, r) ∈ tbl := by
  induction tbl with
  | nil => simp [lookupRelation] at h
  | cons p rest ih =>
    obtain ⟨k, v⟩ := p
    unfold lookupRelation at h
    split at h
    · rename_i hk; simp at h; simp [hk, h]
    · simp [ih h]

theorem tie_max_modules : Gen.Authz.maxModulesInRequest = 1 := by decide

set_option maxRecDepth 100000 in
theorem tie_names :
    Gen.Authz.cStoreType = "store" ∧ Gen.Authz.cModuleType = "module" ∧ Gen.Authz.cApplicationType = "application" ∧
    Gen.Authz.cSystemType = "system" ∧ Gen.Authz.cSystemRelationOnStore = "system" ∧ Gen.Authz.cRootSystemID = "fga" ∧
    Gen.Authz.cCanCallGetStore = "can_call_get_store" ∧
    Gen.Authz.systemObjectIDExpr = "fmt.Sprintf(\"%s:%s\", SystemType, RootSystemID)" ∧
    Gen.Authz.fmtStoreIDType = "return fmt.Sprintf(\"%s:%s\", StoreType, string(s))" ∧
    Gen.Authz.fmtClientIDType = "return fmt.Sprintf(\"%s:%s\", ApplicationType, string(c))" ∧
    Gen.Authz.fmtModuleIDType = "return fmt.Sprintf(`%s:%s|%s`, ModuleType, string(m), module)" := by decide

set_option maxRecDepth 100000 in
/-- `Authorize` has exactly the control structure the model mirrors. -/
theorem tie_authorize_skeleton : Gen.Authz.skAuthorize = [
    "claims, err := checkAuthClaims(ctx)", "if err != nil {", "return err", "}",
    "relation, err := a.getRelation(apiMethod)", "if err != nil {",
    "return &authorizationError{Cause: fmt.Sprintf(\"error getting relation: %v\", err)}", "}",
    "contextualTuples := openfgav1.ContextualTupleKeys{ TupleKeys: []*openfgav1.TupleKey{ getSystemAccessTuple(storeID), }, }",
    "err = a.individualAuthorize(ctx, claims.ClientID, relation, StoreIDType(storeID).String(), &contextualTuples)",
    "if err == nil {", "return nil", "}",
    "if len(modules) > 0 {", "if len(modules) > MaxModulesInRequest {",
    "return &authorizationError{Cause: fmt.Sprintf(\"the principal cannot write tuples of more than %v module(s) in a single request (modules in request: %v)\", MaxModulesInRequest, len(modules))}",
    "}", "return a.moduleAuthorize(ctx, claims.ClientID, relation, storeID, modules)", "}", "return err"] := by decide

set_option maxRecDepth 100000 in
theorem tie_individual_skeleton : Gen.Authz.skIndividualAuthorize = [
    "req := &openfgav1.CheckRequest{ StoreId: a.config.StoreID, AuthorizationModelId: a.config.ModelID, TupleKey: &openfgav1.CheckRequestTupleKey{ User: ClientIDType(clientID).String(), Relation: relation, Object: object, }, ContextualTuples: contextualTuples, }",
    "ctx = authclaims.ContextWithSkipAuthzCheck(ctx, true)",
    "resp, err := a.server.Check(ctx, req)",
    "if err != nil {", "return &authorizationError{Cause: fmt.Sprintf(\"check returned error: %v\", err)}", "}",
    "if !resp.GetAllowed() {", "return &authorizationError{Cause: \"check returned not allowed\"}", "}",
    "return nil"] := by decide

set_option maxRecDepth 100000 in
theorem tie_module_skeleton : Gen.Authz.skModuleAuthorize = [
    "var wg sync.WaitGroup", "errorChannel := make(chan error, len(modules))",
    "for range modules {", "wg.Add(1)", "go {", "defer wg.Done()",
    "contextualTuples := openfgav1.ContextualTupleKeys{ TupleKeys: []*openfgav1.TupleKey{ { User: StoreIDType(storeID).String(), Relation: StoreType, Object: ModuleIDType(storeID).String(module), }, getSystemAccessTuple(storeID), }, }",
    "err := a.individualAuthorize(ctx, clientID, relation, ModuleIDType(storeID).String(module), &contextualTuples)",
    "if err != nil {", "errorChannel <- err", "}", "}", "}",
    "wg.Wait()", "close(errorChannel)",
    "for range errorChannel {", "if err != nil {", "return err", "}", "}", "return nil"] := by decide

set_option maxRecDepth 100000 in
theorem tie_claims_skeleton : Gen.Authz.skCheckAuthClaims = [
    "claims, found := authclaims.AuthClaimsFromContext(ctx)",
    "if !found || claims.ClientID == \"\" {",
    "return nil, &authorizationError{Cause: \"client ID not found in context or is empty\"}", "}",
    "return claims, nil"] ∧
    Gen.Authz.skGetSystemAccessTuple =
      ["return &openfgav1.TupleKey{ User: SystemObjectID, Relation: SystemRelationOnStore, Object: StoreIDType(storeID).String(), }"] := by decide

set_option maxRecDepth 100000 in
theorem tie_system_skeletons :
    Gen.Authz.skAuthorizeCreateStore = [
      "claims, err := checkAuthClaims(ctx)", "if err != nil {", "return err", "}",
      "relation, err := a.getRelation(apimethod.CreateStore)", "if err != nil {", "return err", "}",
      "return a.individualAuthorize(ctx, claims.ClientID, relation, SystemObjectID, &openfgav1.ContextualTupleKeys{})"] ∧
    Gen.Authz.skAuthorizeListStores = [
      "claims, err := checkAuthClaims(ctx)", "if err != nil {", "return err", "}",
      "relation, err := a.getRelation(apimethod.ListStores)", "if err != nil {", "return err", "}",
      "return a.individualAuthorize(ctx, claims.ClientID, relation, SystemObjectID, &openfgav1.ContextualTupleKeys{})"] := by decide

set_option maxRecDepth 100000 in
theorem tie_list_authorized_skeleton : Gen.Authz.skListAuthorizedStores = [
    "claims, err := checkAuthClaims(ctx)", "if err != nil {", "return nil, err", "}",
    "req := &openfgav1.ListObjectsRequest{ StoreId: a.config.StoreID, AuthorizationModelId: a.config.ModelID, User: ClientIDType(claims.ClientID).String(), Relation: CanCallGetStore, Type: StoreType, }",
    "ctx = authclaims.ContextWithSkipAuthzCheck(ctx, true)",
    "resp, err := a.server.ListObjects(ctx, req)",
    "if err != nil {", "return nil, &authorizationError{Cause: fmt.Sprintf(\"list objects returned error: %v\", err)}", "}",
    "storeIDs := make([]string, len(resp.GetObjects()))", "storePrefix := StoreType + \":\"",
    "for range resp.GetObjects() {", "storeIDs[i] = strings.TrimPrefix(store, storePrefix)", "}",
    "return storeIDs, nil"] := by decide

set_option maxRecDepth 100000 in
theorem tie_extract_modules_skeleton : Gen.Authz.skExtractModules = [
    "modulesMap := make(map[string]struct{})", "for range tupleKeys {",
    "objType, _ := tuple.SplitObject(tupleKey.GetObject())",
    "objectType, ok := typesys.GetTypeDefinition(objType)",
    "if !ok {", "return nil, &authorizationError{Cause: fmt.Sprintf(\"type '%s' not found\", objType)}", "}",
    "module, err := parser.GetModuleForObjectTypeRelation(objectType, tupleKey.GetRelation())",
    "if err != nil {", "return nil, err", "}",
    "if module == \"\" {", "return nil, nil", "}",
    "modulesMap[module] = struct{}{}", "}", "return modulesMap, nil"] := by decide

set_option maxRecDepth 100000 in
/-- The four server-side wrappers: the only bypass is the in-process skip flag; every authorizer error becomes
`ErrUnauthorizedResponse`. -/
theorem tie_wrapper_skeletons :
    Gen.Authz.sk_checkAuthz = [
      "if authclaims.SkipAuthzCheckFromContext(ctx) {", "return nil", "}",
      "err := s.authorizer.Authorize(ctx, storeID, apiMethod, modules...)",
      "if err != nil {", "return authz.ErrUnauthorizedResponse", "}", "return nil"] ∧
    Gen.Authz.sk_checkCreateStoreAuthz = [
      "if authclaims.SkipAuthzCheckFromContext(ctx) {", "return nil", "}",
      "err := s.authorizer.AuthorizeCreateStore(ctx)",
      "if err != nil {", "return authz.ErrUnauthorizedResponse", "}", "return nil"] ∧
    Gen.Authz.sk_getAccessibleStores = [
      "if authclaims.SkipAuthzCheckFromContext(ctx) {", "return nil, nil", "}",
      "err := s.authorizer.AuthorizeListStores(ctx)",
      "if err != nil {", "return nil, authz.ErrUnauthorizedResponse", "}",
      "stores, err := s.authorizer.ListAuthorizedStores(ctx)",
      "if err != nil {", "return nil, authz.ErrUnauthorizedResponse", "}", "return stores, nil"] ∧
    Gen.Authz.sk_checkWriteAuthz = [
      "if authclaims.SkipAuthzCheckFromContext(ctx) {", "return nil", "}",
      "modules, err := s.authorizer.GetModulesForWriteRequest(ctx, req, typesys)",
      "if err != nil {", "return authz.ErrUnauthorizedResponse", "}",
      "return s.checkAuthz(ctx, req.GetStoreId(), apimethod.Write, modules...)"] := by decide

set_option maxRecDepth 100000 in
/-- the in-process bypass flag is a typed context value that only `ContextWithSkipAuthzCheck` sets (it is not read from
request metadata), and the claims come from the context value the authn middleware stored -/
theorem tie_skip_flag :
    Gen.Authz.skSkipAuthzCheckFromContext = ["isSkipped, ok := ctx.Value(skipAuthz).(bool)", "return isSkipped && ok"] ∧
    Gen.Authz.skContextWithSkipAuthzCheck = ["return context.WithValue(parent, skipAuthz, skipAuthzCheck)"] ∧
    Gen.Authz.skAuthClaimsFromContext = ["claims, ok := ctx.Value(authClaimsContextKey).(*AuthClaims)", "if !ok {", "return nil, false", "}", "return claims, true"] := by
  decide

/-! ## `authorize_spec` -/

/-- What the access-control store grants: a store-level grant, or — only for a request that names modules, at most
the maximum — a grant on every module.  `Check` errors are not grants. -/
def Granted (tbl : List (String × String)) (maxModules : Nat) (n : Names) (check : Checker) (r : Req) : Prop :=
  ∃ c rel, r.claims = some c ∧ c ≠ "" ∧ lookupRelation tbl r.method = some rel ∧
    (check (storeReq n c rel r.store) = .allowed ∨
      (r.modules ≠ [] ∧ r.modules.length ≤ maxModules ∧ ∀ m ∈ r.modules, check (moduleReq n c rel r.store m) = .allowed))

theorem individualAuthorize_ok_iff (check : Checker) (n : Names) (c rel obj : String) (ctx : List Tuple) :
    individualAuthorize check n c rel obj ctx = .ok () ↔ check ⟨n.appUser c, rel, obj, ctx⟩ = .allowed := by
  unfold individualAuthorize
  cases h : check ⟨n.appUser c, rel, obj, ctx⟩ <;> simp

theorem moduleErr_none_iff (check : Checker) (n : Names) (c rel store m : String) :
    moduleErr check n c rel store m = none ↔ check (moduleReq n c rel store m) = .allowed := by
  unfold moduleErr
  have := individualAuthorize_ok_iff check n c rel (n.moduleObj store m) (n.moduleCtx store m)
  cases h : individualAuthorize check n c rel (n.moduleObj store m) (n.moduleCtx store m) with
  | ok u => cases u; simp [moduleReq, ← this, h]
  | error e => simp [moduleReq, ← this, h]

/-- Whatever order the goroutines deliver in, `moduleAuthorize` succeeds iff every module is granted. -/
theorem moduleAuthorize_ok_iff (check : Checker) (n : Names) (sched : List String → List String)
    (c rel store : String) (ms : List String) (hs : (sched ms).Perm ms) :
    moduleAuthorize check n sched c rel store ms = .ok () ↔ ∀ m ∈ ms, check (moduleReq n c rel store m) = .allowed := by
  unfold moduleAuthorize
  constructor
  · intro h m hm
    have hm' : m ∈ sched ms := hs.mem_iff.mpr hm
    cases hf : (sched ms).filterMap (moduleErr check n c rel store) with
    | nil =>
      have : moduleErr check n c rel store m = none := by
        cases he : moduleErr check n c rel store m with
        | none => rfl
        | some e =>
          have : e ∈ (sched ms).filterMap (moduleErr check n c rel store) := List.mem_filterMap.mpr ⟨m, hm', he⟩
          rw [hf] at this; simp at this
      exact (moduleErr_none_iff ..).mp this
    | cons x xs => rw [hf] at h; simp at h
  · intro h
    have : (sched ms).filterMap (moduleErr check n c rel store) = [] := by
      apply List.eq_nil_iff_forall_not_mem.mpr
      intro e he
      obtain ⟨m, hm, hme⟩ := List.mem_filterMap.mp he
      have := (moduleErr_none_iff check n c rel store m).mpr (h m (hs.mem_iff.mp hm))
      rw [this] at hme; simp at hme
    rw [this]

/-- **authorize_spec**: `Authorize` lets a request through exactly when the access-control store grants it —
for every relation table, module limit, nested-Check function (including ones that fail), module list and
goroutine schedule. -/
theorem authorize_spec (tbl : List (String × String)) (maxModules : Nat) (n : Names) (check : Checker)
    (sched : List String → List String) (r : Req) (hs : (sched r.modules).Perm r.modules) :
    authorize tbl maxModules n check sched r = .ok () ↔ Granted tbl maxModules n check r := by
  unfold authorize Granted checkAuthClaims
  cases hc : r.claims with
  | none => simp
  | some c =>
    by_cases hce : c = ""
    · simp [hce]
    · simp only [hce, if_false]
      cases hl : lookupRelation tbl r.method with
      | none => simp
      | some rel =>
        have hstore := individualAuthorize_ok_iff check n c rel (n.storeObj r.store) [n.systemAccessTuple r.store]
        cases hi : individualAuthorize check n c rel (n.storeObj r.store) [n.systemAccessTuple r.store] with
        | ok u =>
          cases u
          have := hstore.mp hi
          simp only [hi, true_iff]
          exact ⟨c, rel, rfl, hce, rfl, Or.inl (by simpa [storeReq] using this)⟩
        | error e =>
          have hnot : ¬ check (storeReq n c rel r.store) = .allowed := by
            intro ha
            have := hstore.mpr (by simpa [storeReq] using ha)
            rw [hi] at this; cases this
          simp only [hi]
          by_cases hm : r.modules.length > 0
          · simp only [hm, if_true]
            by_cases hx : r.modules.length > maxModules
            · simp only [hx, if_true]
              constructor
              · intro h; cases h
              · rintro ⟨c', rel', hc', _, hl', h⟩
                cases hc'; cases hl'
                rcases h with h | ⟨_, hle, _⟩
                · exact absurd h hnot
                · omega
            · simp only [hx, if_false]
              rw [moduleAuthorize_ok_iff check n sched c rel r.store r.modules hs]
              constructor
              · intro h
                refine ⟨c, rel, rfl, hce, rfl, Or.inr ⟨?_, by omega, h⟩⟩
                intro he; rw [he] at hm; simp at hm
              · rintro ⟨c', rel', hc', _, hl', h⟩
                cases hc'; cases hl'
                rcases h with h | ⟨_, _, h⟩
                · exact absurd h hnot
                · exact h
          · simp only [hm, if_false]
            constructor
            · intro h; cases h
            · rintro ⟨c', rel', hc', _, hl', h⟩
              cases hc'; cases hl'
              rcases h with h | ⟨hne, _, _⟩
              · exact absurd h hnot
              · exfalso; apply hm
                cases hmm : r.modules with
                | nil => exact absurd hmm hne
                | cons a b => simp

/-- the Boolean specification used by the correspondence driver is `Granted` -/
theorem grantedB_iff (tbl : List (String × String)) (maxModules : Nat) (n : Names) (check : Checker) (r : Req) :
    grantedB tbl maxModules n check r = true ↔ Granted tbl maxModules n check r := by
  unfold grantedB Granted
  cases hc : r.claims with
  | none => simp
  | some c =>
    cases hl : lookupRelation tbl r.method with
    | none => simp
    | some rel =>
      simp only [Bool.and_eq_true, Bool.or_eq_true, decide_eq_true_eq, Bool.not_eq_true', List.all_eq_true,
        Option.some.injEq, exists_and_left, exists_eq_left', ne_eq]
      constructor
      · rintro ⟨h1, h2⟩
        refine ⟨h1, ?_⟩
        rcases h2 with h2 | ⟨⟨h3, h4⟩, h5⟩
        · exact Or.inl h2
        · refine Or.inr ⟨?_, h4, h5⟩
          intro he; rw [he] at h3; simp at h3
      · rintro ⟨h1, h2⟩
        refine ⟨h1, ?_⟩
        rcases h2 with h2 | ⟨h3, h4, h5⟩
        · exact Or.inl h2
        · refine Or.inr ⟨⟨?_, h4⟩, h5⟩
          cases hm : r.modules with
          | nil => exact absurd hm h3
          | cons a b => rfl

/-- The decision does not depend on the goroutine schedule. -/
theorem authorize_schedule_independent (tbl : List (String × String)) (maxModules : Nat) (n : Names) (check : Checker)
    (s1 s2 : List String → List String) (r : Req)
    (h1 : (s1 r.modules).Perm r.modules) (h2 : (s2 r.modules).Perm r.modules) :
    authorize tbl maxModules n check s1 r = .ok () ↔ authorize tbl maxModules n check s2 r = .ok () := by
  rw [authorize_spec _ _ _ _ _ _ h1, authorize_spec _ _ _ _ _ _ h2]

/-- Calls without a client identity are always denied. -/
theorem authorize_no_identity_denied (tbl : List (String × String)) (maxModules : Nat) (n : Names) (check : Checker)
    (sched : List String → List String) (r : Req) (h : r.claims = none ∨ r.claims = some "") :
    authorize tbl maxModules n check sched r = .error .noClient := by
  unfold authorize checkAuthClaims
  rcases h with h | h <;> simp [h]

/-- Any error while deciding denies: if the store-level Check fails and some module Check fails (or there are no
modules), the request is denied whatever else is granted. -/
theorem authorize_error_denies (tbl : List (String × String)) (maxModules : Nat) (n : Names) (check : Checker)
    (sched : List String → List String) (r : Req) (hs : (sched r.modules).Perm r.modules)
    (hstore : ∀ c rel, check (storeReq n c rel r.store) = .error)
    (hmod : r.modules = [] ∨ ∃ m ∈ r.modules, ∀ c rel, check (moduleReq n c rel r.store m) = .error) :
    authorize tbl maxModules n check sched r ≠ .ok () := by
  rw [Ne, authorize_spec _ _ _ _ _ _ hs]
  rintro ⟨c, rel, _, _, _, h | ⟨hne, _, h⟩⟩
  · rw [hstore] at h; cases h
  · rcases hmod with hm | ⟨m, hm, he⟩
    · exact hne hm
    · have := h m hm; rw [he] at this; cases this

/-- `AuthorizeCreateStore` / `AuthorizeListStores` -/
theorem authorize_system_spec (tbl : List (String × String)) (n : Names) (check : Checker) (claims : Option String) (method : String) :
    authorizeSystem tbl n check claims method = .ok () ↔
      ∃ c rel, claims = some c ∧ c ≠ "" ∧ lookupRelation tbl method = some rel ∧
        check ⟨n.appUser c, rel, n.systemObj, []⟩ = .allowed := by
  unfold authorizeSystem checkAuthClaims
  cases hc : claims with
  | none => simp
  | some c =>
    by_cases hce : c = ""
    · simp [hce]
    · simp only [hce, if_false]
      cases hl : lookupRelation tbl method with
      | none => simp
      | some rel =>
        rw [individualAuthorize_ok_iff]
        constructor
        · intro h; exact ⟨c, rel, rfl, hce, rfl, h⟩
        · rintro ⟨c', rel', hc', _, hl', h⟩; cases hc'; cases hl'; exact h

def exCheck : Checker := fun q => if q.object = "module:S|ma" ∧ q.relation = "can_call_write" then .allowed else .denied

/-- non-vacuity: a module-level grant lets a one-module write through, a second module does not -/
example :
    authorize Gen.Authz.methodRelation Gen.Authz.maxModulesInRequest {} exCheck id ⟨some "app", "S", "Write", ["ma"]⟩ = .ok () ∧
    authorize Gen.Authz.methodRelation Gen.Authz.maxModulesInRequest {} exCheck id ⟨some "app", "S", "Write", ["ma", "mb"]⟩ = .error .tooManyModules ∧
    authorize Gen.Authz.methodRelation Gen.Authz.maxModulesInRequest {} exCheck id ⟨some "app", "S", "Read", ["ma"]⟩ = .error .notAllowed ∧
    authorize Gen.Authz.methodRelation Gen.Authz.maxModulesInRequest {} exCheck id ⟨some "", "S", "Write", ["ma"]⟩ = .error .noClient := by
  decide

/-! ## Server wrappers -/

/-- `checkAuthz`: outside the in-process skip flag the call passes iff the authorizer agreed. -/
theorem server_call_spec (tbl : List (String × String)) (maxModules : Nat) (n : Names) (check : Checker)
    (sched : List String → List String) (r : Req) (hs : (sched r.modules).Perm r.modules) :
    checkAuthz false (authorize tbl maxModules n check sched r) = .pass ↔ Granted tbl maxModules n check r := by
  rw [← authorize_spec tbl maxModules n check sched r hs]
  unfold checkAuthz
  cases h : authorize tbl maxModules n check sched r with
  | ok u => cases u; simp
  | error e => simp

theorem server_call_forbidden_or_pass (skip : Bool) (a : Except Cause Unit) :
    checkAuthz skip a = .pass ∨ checkAuthz skip a = .forbidden := by
  unfold checkAuthz; cases skip <;> cases a <;> simp

/-- `extractModules` returns a non-empty module list only when every tuple of the request lives in one of the
returned modules (the request is confined to them), and never invents a module. -/
theorem extractModules_confined (ts : List TupleModule) (acc ms : List String) (h : extractModules ts acc = some ms)
    (hne : ms ≠ []) : (∀ t ∈ ts, ∃ m ∈ ms, t = .module m) ∧ (∀ m ∈ acc, m ∈ ms) ∧ (∀ m ∈ ms, m ∈ acc ∨ .module m ∈ ts) := by
  induction ts generalizing acc with
  | nil => simp [extractModules] at h; subst h; simp
  | cons t rest ih =>
    cases t with
    | typeNotFound => simp [extractModules] at h
    | relationNotFound => simp [extractModules] at h
    | noModule => simp [extractModules] at h; exact absurd h hne
    | module m =>
      simp only [extractModules] at h
      obtain ⟨h1, h2, h3⟩ := ih _ h
      have hm : m ∈ ms := by
        apply h2
        by_cases hin : m ∈ acc <;> simp [hin]
      refine ⟨?_, ?_, ?_⟩
      · intro t ht
        rcases List.mem_cons.mp ht with rfl | ht
        · exact ⟨m, hm, rfl⟩
        · exact h1 t ht
      · intro x hx; apply h2; by_cases hin : m ∈ acc <;> simp [hin, hx]
      · intro x hx
        rcases h3 x hx with hacc | hr
        · by_cases hin : m ∈ acc
          · simp [hin] at hacc; exact Or.inl hacc
          · simp [hin] at hacc
            rcases hacc with hacc | rfl
            · exact Or.inl hacc
            · exact Or.inr (by simp)
        · exact Or.inr (by simp [hr])

/-- **write_call_spec**: a Write gets past `checkWriteAuthz` exactly when module extraction succeeds and the
authorizer grants the store or all the (at most `maxModules`) modules the request is confined to. -/
theorem write_call_spec (tbl : List (String × String)) (maxModules : Nat) (n : Names) (check : Checker)
    (sched : List String → List String) (claims : Option String) (store : String) (ts : List TupleModule)
    (hs : ∀ ms, (sched ms).Perm ms) :
    checkWriteAuthz false ts (fun ms => authorize tbl maxModules n check sched ⟨claims, store, "Write", ms⟩) = .pass ↔
      ∃ ms, extractModules ts [] = some ms ∧ Granted tbl maxModules n check ⟨claims, store, "Write", ms⟩ := by
  unfold checkWriteAuthz
  simp only [Bool.false_eq_true, if_false]
  cases he : extractModules ts [] with
  | none => simp
  | some ms =>
    simp only [Option.some.injEq, exists_eq_left']
    exact server_call_spec tbl maxModules n check sched ⟨claims, store, "Write", ms⟩ (hs ms)

/-! ## Handlers authorize first -/

/-- handlers that may resolve the typesystem (read the authorization model) before authorizing: `Write` needs the
model to find the modules of the request, `ActionSearch` to enumerate the relations it then BatchChecks. -/
def typesysFirstHandlers : List String := ["Write", "ActionSearch"]

set_option maxRecDepth 100000 in
/-- **handlers_authorize_first**: in every RPC handler of pkg/server no data-bearing field of the server is
touched before an authorizer call (or a delegation to a handler that authorizes) whose error is returned right
away; only `Write` and `ActionSearch` resolve the typesystem first. -/
theorem handlers_authorize_first :
    ∀ h ∈ Gen.Authz.handlers, authorizesFirst Gen.Authz.handlers typesysFirstHandlers h = true := by decide

/-- the API method each handler authorizes with (first authorizer event, following delegations) -/
def expectedGuard : List (String × String) := [
  ("ActionSearch", "checkAuthz:BatchCheck"), ("BatchCheck", "checkAuthz:BatchCheck"), ("Check", "checkAuthz:Check"),
  ("CreateStore", "checkCreateStoreAuthz:"), ("DeleteStore", "checkAuthz:DeleteStore"), ("Evaluation", "checkAuthz:Check"),
  ("Evaluations", "checkAuthz:Check"), ("Expand", "checkAuthz:Expand"), ("GetStore", "checkAuthz:GetStore"),
  ("ListObjects", "checkAuthz:ListObjects"), ("ListStores", "getAccessibleStores:"), ("ListUsers", "checkAuthz:ListUsers"),
  ("Read", "checkAuthz:Read"), ("ReadAssertions", "checkAuthz:ReadAssertions"),
  ("ReadAuthorizationModel", "checkAuthz:ReadAuthorizationModel"), ("ReadAuthorizationModels", "checkAuthz:ReadAuthorizationModels"),
  ("ReadChanges", "checkAuthz:ReadChanges"), ("ResourceSearch", "checkAuthz:StreamedListObjects"),
  ("StreamedListObjects", "checkAuthz:StreamedListObjects"), ("SubjectSearch", "checkAuthz:ListUsers"),
  ("Write", "checkWriteAuthz:"), ("WriteAssertions", "checkAuthz:WriteAssertions"),
  ("WriteAuthorizationModel", "checkAuthz:WriteAuthorizationModel")]

set_option maxRecDepth 100000 in
/-- **handlers_guard_method**: every expected handler is present and authorizes with its own API method; every
handler that is not in the list touches no data at all (today: `GetConfiguration`). -/
theorem handlers_guard_method :
    (∀ p ∈ expectedGuard, ∃ h ∈ Gen.Authz.handlers, h.1 = p.1 ∧ guardOf Gen.Authz.handlers 64 h.2 = some p.2) ∧
    (∀ h ∈ Gen.Authz.handlers, (lookupRelation expectedGuard h.1).isSome = true ∨ h.2 = []) := by decide

/-- The stronger statement "no datastore read of any kind before authorization" … -/
def FullNoReadBeforeAuthz (tbl : List Handler) : Prop :=
  ∀ h ∈ tbl, authorizesFirst tbl [] h = true

set_option maxRecDepth 100000 in
/-- … does not hold on the checked tree: `Write` (and `ActionSearch`) resolve the typesystem of the target store
before the authorizer runs, so an unauthorized caller can tell "store/model does not exist" from "forbidden". -/
theorem write_reads_model_before_authz : ¬ FullNoReadBeforeAuthz Gen.Authz.handlers := by
  unfold FullNoReadBeforeAuthz; decide

/-! ## ListStores -/

/-- The response of `ListStores` contains only stores of the granted list. -/
def FullListStoresFilter (guard : Bool) : Prop :=
  ∀ (all : List Store) (ids : List String) (name : String),
    ∀ s ∈ serverListStores guard (some ids) all name, s.id ∈ ids

theorem backend_filter_subset (all : List Store) (ids : List String) (name : String) (hne : ids ≠ []) :
    ∀ s ∈ backendListStores all ids name, s.id ∈ ids ∧ s ∈ all := by
  intro s hs
  unfold backendListStores at hs
  have hlen : ids.length > 0 := by cases ids with
    | nil => exact absurd rfl hne
    | cons a b => simp
  simp only [hlen, if_true] at hs
  have key : ∀ s ∈ ids.flatMap (fun i => all.filter (fun s => s.id = i)), s.id ∈ ids ∧ s ∈ all := by
    intro s hs
    obtain ⟨i, hi, hsi⟩ := List.mem_flatMap.mp hs
    have := List.mem_filter.mp hsi
    simp at this
    exact ⟨this.2 ▸ hi, this.1⟩
  split at hs
  · exact key s (List.mem_filter.mp hs).1
  · exact key s hs

/-- proved part, both variants: with a non-empty granted list the response is inside it -/
theorem liststores_filter_partial (guard : Bool) (all : List Store) (ids : List String) (name : String) (hne : ids ≠ []) :
    ∀ s ∈ serverListStores guard (some ids) all name, s.id ∈ ids := by
  intro s hs
  unfold serverListStores at hs
  have hlen : ¬ ids.length = 0 := by cases ids with
    | nil => exact absurd rfl hne
    | cons a b => simp
  simp only [hlen, and_false, if_false] at hs
  exact (backend_filter_subset all ids name hne s hs).1

/-- the filter statement for the handler with the guard (empty non-nil list = no stores) -/
theorem liststores_filter_fixed : FullListStoresFilter true := by
  intro all ids name s hs
  by_cases hne : ids = []
  · subst hne; simp [serverListStores] at hs
  · exact liststores_filter_partial true all ids name hne s hs

/-- **F3, before commit 31b7057** (kept as documentation of what was wrong): without the guard the statement is
false — the caller may list but may get nothing, one store exists: it is returned. -/
theorem liststores_leak_unfixed : ¬ FullListStoresFilter false := by
  intro h
  have := h [⟨"01STORE", "secret"⟩] [] "" ⟨"01STORE", "secret"⟩ (by decide)
  simp at this

/-- the response never invents stores (both variants) -/
theorem liststores_subset_all (guard : Bool) (acc : Option (List String)) (all : List Store) (name : String) :
    ∀ s ∈ serverListStores guard acc all name, s ∈ all := by
  intro s hs
  unfold serverListStores at hs
  have nofilter : ∀ s ∈ backendListStores all [] name, s ∈ all := by
    intro s hs
    unfold backendListStores at hs
    simp at hs
    split at hs
    · exact hs
    · exact (List.mem_filter.mp hs).1
  cases acc with
  | none => exact nofilter s hs
  | some ids =>
    simp only at hs
    split at hs
    · simp at hs
    · by_cases hne : ids = []
      · subst hne; exact nofilter s hs
      · exact (backend_filter_subset all ids name hne s hs).2

/-- Which variant the checked tree is.  `true` since /repo commit 31b7057 ("fix: ListStores must not list every store
when the caller's accessible-store list is empty"); before that commit the value was `false`, `liststores_filter`
was false and `liststores_leak_unfixed` (kept above as documentation of finding F3) was the statement that held. -/
def f3Fixed : Bool := true

set_option maxRecDepth 100000 in
/-- the guard in `Server.ListStores` is present (extractor), the backends still treat an empty ID list as
"no filter", and the command passes the list through untouched -/
theorem tie_liststores_guard :
    Gen.Authz.listStoresEmptyGuard = f3Fixed ∧
    Gen.Authz.memoryListStoresIDCond = "len(options.IDs) > 0" ∧ Gen.Authz.sqliteListStoresIDCond = "len(options.IDs) > 0" ∧
    Gen.Authz.listStoresQueryPassesIDs = true := by decide

/-- **liststores_filter** (full strength, for the handler of the checked tree): whatever stores exist, whatever
list the authorizer granted (including the empty one) and whatever name filter is given, every store in the
response is in the granted list.  Removing the guard from `Server.ListStores` breaks `tie_liststores_guard` and
with it this proof. -/
theorem liststores_filter : FullListStoresFilter Gen.Authz.listStoresEmptyGuard := by
  rw [tie_liststores_guard.1]
  exact liststores_filter_fixed

/-- end to end: what `Server.ListStores` answers for a caller under access control is inside the list the
authorizer granted -/
theorem liststores_response_granted (mayList : Except Cause Unit) (granted : Option (List String))
    (all : List Store) (name : String) (acc : Option (List String))
    (h : getAccessibleStores false mayList granted = some acc) :
    ∃ ids, granted = some ids ∧ acc = some ids ∧
      ∀ s ∈ serverListStores Gen.Authz.listStoresEmptyGuard acc all name, s.id ∈ ids := by
  unfold getAccessibleStores at h
  cases mayList with
  | error e => simp at h
  | ok u =>
    cases granted with
    | none => simp at h
    | some ids =>
      simp at h
      subst h
      exact ⟨ids, rfl, rfl, liststores_filter all ids name⟩

/-- `getAccessibleStores`: forbidden unless the caller may list stores; the granted list is passed on unchanged -/
theorem accessible_stores_spec (mayList : Except Cause Unit) (granted : Option (List String)) (r : Option (List String)) :
    getAccessibleStores false mayList granted = some r ↔ mayList = .ok () ∧ ∃ ids, granted = some ids ∧ r = some ids := by
  unfold getAccessibleStores
  cases mayList with
  | error e => simp
  | ok u =>
    cases u
    cases granted with
    | none => simp
    | some ids => simp [eq_comm]

/-- non-vacuity: with a granted list the filter really selects -/
example : (serverListStores false (some ["b"]) [⟨"a", "x"⟩, ⟨"b", "y"⟩, ⟨"c", "y"⟩] "").map (·.id) = ["b"] ∧
    (serverListStores false (some []) [⟨"a", "x"⟩, ⟨"b", "y"⟩] "").map (·.id) = ["a", "b"] ∧
    (serverListStores true (some []) [⟨"a", "x"⟩, ⟨"b", "y"⟩] "").map (·.id) = [] ∧
    (serverListStores true none [⟨"a", "x"⟩, ⟨"b", "y"⟩] "y").map (·.id) = ["b"] := by decide

/-- `ListAuthorizedStores` only strips the `store:` prefix -/
example : listAuthorizedStores {} (some "app") (fun _ => some ["store:01A", "store:store:x", "doc:1"]) = some ["01A", "store:x", "doc:1"] := by
  decide

end OpenFGAVerif.C26
