/-
C27 — Authentication accepts exactly valid credentials.

Model: `Model.Authn`.  Data regenerated from the Go source on every run: `Gen.Authn`.

Status of the statements
  * pre-shared keys: `preshared_accept_iff` (∃ key with the same hash), `preshared_accept_iff_key` (= one of the
    keys, under injectivity of the hash on the compared strings — SHA-256 is trusted, not proved), for every key
    list, every header list and every hash function; `authFromMD_some_iff` characterises the accepted header shape.
  * OIDC: `oidc_accept_iff` is the exact decision table of the code as written (parser options, issuer list,
    validator options and the subject guard come from `Gen.Authn`; the `tie_*` lemmas are `decide`-checked, removing
    an option from the source breaks them and with them the proof).
  * `FullOidcStatement` (the property as worded) does NOT hold for every configuration and token:
    `oidc_statement_partial` proves it under explicit side conditions, `oidc_empty_alias_accepts_any_issuer` and
    `oidc_rejects_future_nbf` are the proved negation witnesses (an empty-string issuer alias / subject entry
    disables the check; a `nbf` in the future is refused although the statement does not mention it).
  * the jwt library (parsing, signature verification, JWKS lookup) is abstract: `Token` is its view of the bearer
    string, `sigOk` an uninterpreted predicate.
-/
import OpenFGAVerif.Model.Authn
import OpenFGAVerif.Gen.Authn

namespace OpenFGAVerif.C27
open OpenFGAVerif.Model.Authn

/-! ## Ties -/

set_option maxRecDepth 100000 in
theorem tie_preshared_skeleton :
    Gen.Authn.presharedScheme = "\"Bearer\"" ∧
    Gen.Authn.skPresharedNew = [
      "if len(validKeys) < 1 {", "return nil, errors.New(\"invalid auth configuration, please specify at least one key\")", "}",
      "hashes := make([][sha256.Size]byte, 0, len(validKeys))", "for range validKeys {",
      "hashes = append(hashes, sha256.Sum256([]byte(k)))", "}",
      "return &PresharedKeyAuthenticator{validKeyHashes: hashes}, nil"] ∧
    Gen.Authn.skPresharedAuthenticate = [
      "authHeader, err := grpcauth.AuthFromMD(ctx, \"Bearer\")", "if err != nil {", "return nil, authn.ErrMissingBearerToken", "}",
      "tokenHash := sha256.Sum256([]byte(authHeader))", "var matched int",
      "for range pka.validKeyHashes {", "matched |= subtle.ConstantTimeCompare(tokenHash[:], kh[:])", "}",
      "if matched == 1 {", "return &authclaims.AuthClaims{ Subject: \"\", }, nil", "}",
      "return nil, authn.ErrUnauthenticated"] := by decide

set_option maxRecDepth 100000 in
theorem tie_authfunc_skeleton : Gen.Authn.skAuthFunc = [
    "claims, err := authenticator.Authenticate(ctx)", "if err != nil {", "return nil, err", "}",
    "return authclaims.ContextWithAuthClaims(ctx, claims), nil"] := by decide

/-- the parser template the source builds: RS256 only, issued-at verified, expiry required, audience = configured -/
def parserTemplate : VTemplate := { validMethods := ["RS256"], verifyIat := true, requireExp := true, aud := .cfgAudience }
def issuerTemplate : VTemplate := { iss := .loopVar }
def subjectTemplate : VTemplate := { sub := .loopVar }

set_option maxRecDepth 100000 in
/-- every required parser option is present in the extracted list (and nothing the model does not know) -/
theorem tie_parser_options :
    templateOf Gen.Authn.parserOptions = parserTemplate ∧ Gen.Authn.parserBuiltFromOptions = true ∧
    Gen.Authn.oidcScheme = "\"Bearer\"" := by decide

set_option maxRecDepth 100000 in
theorem tie_issuers : Gen.Authn.validIssuers.map issuerSrc = [.main, .aliases] := by decide

set_option maxRecDepth 100000 in
theorem tie_validators :
    Gen.Authn.validatorOptions.length = 2 ∧
    templateOf (Gen.Authn.validatorOptions.getD 0 []) = issuerTemplate ∧
    templateOf (Gen.Authn.validatorOptions.getD 1 []) = subjectTemplate := by decide

set_option maxRecDepth 100000 in
theorem tie_subject_guard : (Gen.Authn.subjectGuard == "len(oidc.Subjects) > 0") = true := by decide

set_option maxRecDepth 100000 in
/-- keys of unknown `kid`s are looked up again (rate limited), and the constructor insists on issuer and audience -/
theorem tie_oidc_misc :
    Gen.Authn.keyfuncOptions = "keyfunc.Options{ Client: oidc.httpClient, RefreshInterval: jwkRefreshInterval, RefreshUnknownKID: true, RefreshRateLimit: jwkRefreshRateLimit, }" ∧
    Gen.Authn.skOidcNew = ["if mainIssuer == \"\" {", "return nil, ErrMissingIssuer", "}", "if audience == \"\" {", "return nil, ErrMissingAudience", "}",
      "client := retryablehttp.NewClient()", "client.Logger = nil",
      "oidc := &RemoteOidcAuthenticator{ MainIssuer: mainIssuer, IssuerAliases: issuerAliases, Audience: audience, Subjects: subjects, httpClient: client.StandardClient(), ClientIDClaims: clientIDClaims, }",
      "if len(oidc.ClientIDClaims) == 0 {", "oidc.ClientIDClaims = []string{\"azp\", \"client_id\"}", "}",
      "err := fetchJWKs(oidc)", "if err != nil {", "return nil, err", "}", "return oidc, nil"] := by
  decide

set_option maxRecDepth 100000 in
/-- the control structure of `Authenticate` the model mirrors -/
theorem tie_oidc_skeleton : Gen.Authn.skOidcAuthenticate = [
    "authHeader, err := grpcauth.AuthFromMD(requestContext, \"Bearer\")", "if err != nil {", "return nil, authn.ErrMissingBearerToken", "}",
    "options := []jwt.ParserOption{ jwt.WithValidMethods([]string{\"RS256\"}), jwt.WithIssuedAt(), jwt.WithExpirationRequired(), }",
    "options = append(options, jwt.WithAudience(oidc.Audience))",
    "jwtParser := jwt.NewParser(options...)",
    "token, err := jwtParser.Parse(authHeader, func(token *jwt.Token) (any, error) { return oidc.JWKs.Keyfunc(token) })",
    "if err != nil || !token.Valid {", "return nil, errInvalidClaims", "}",
    "claims, ok := token.Claims.(jwt.MapClaims)", "if !ok {", "return nil, errInvalidClaims", "}",
    "validIssuers := []string{ oidc.MainIssuer, }",
    "validIssuers = append(validIssuers, oidc.IssuerAliases...)",
    "ok = slices.ContainsFunc(validIssuers, func(issuer string) bool { v := jwt.NewValidator(jwt.WithIssuer(issuer)) err := v.Validate(claims) return err == nil })",
    "if !ok {", "return nil, errInvalidClaims", "}",
    "if len(oidc.Subjects) > 0 {",
    "ok = slices.ContainsFunc(oidc.Subjects, func(subject string) bool { v := jwt.NewValidator(jwt.WithSubject(subject)) err := v.Validate(claims) return err == nil })",
    "if !ok {", "return nil, errInvalidClaims", "}", "}",
    "// optional subject var subject = \"\"",
    "if subjectClaim, ok := claims[\"sub\"]; ok {", "if subject, ok = subjectClaim.(string); !ok {", "return nil, errInvalidClaims", "}", "}",
    "clientID := \"\"", "for range oidc.ClientIDClaims {", "clientID, ok = claims[claimString].(string)", "if ok {", "break", "}", "}",
    "principal := &authclaims.AuthClaims{ Subject: subject, Scopes: make(map[string]bool), ClientID: clientID, }",
    "if scopeKey, ok := claims[\"scope\"]; ok {", "if scope, ok := scopeKey.(string); ok {",
    "scopes := strings.Split(scope, \" \")", "for range scopes {", "principal.Scopes[s] = true", "}", "}", "}",
    "return principal, nil"] := by decide

/-! ## `AuthFromMD` -/

theorem cutSpace_sound (v scheme tok : Bytes) (h : cutSpace v = some (scheme, tok)) :
    v = scheme ++ 32 :: tok ∧ (32 : UInt8) ∉ scheme := by
  induction v generalizing scheme with
  | nil => simp [cutSpace] at h
  | cons x xs ih =>
    unfold cutSpace at h
    split at h
    · rename_i hx; simp at h; obtain ⟨rfl, rfl⟩ := h; simp [hx]
    · rename_i hx
      split at h
      · simp at h
      · rename_i l r hc
        simp at h; obtain ⟨rfl, rfl⟩ := h
        obtain ⟨h1, h2⟩ := ih l hc
        refine ⟨by simp [h1], ?_⟩
        intro m; simp at m; rcases m with m | m
        · exact hx m.symm
        · exact h2 m

theorem cutSpace_complete (scheme tok : Bytes) (h : (32 : UInt8) ∉ scheme) :
    cutSpace (scheme ++ 32 :: tok) = some (scheme, tok) := by
  induction scheme with
  | nil => simp [cutSpace]
  | cons x xs ih =>
    have hx : x ≠ 32 := fun e => h (by simp [e])
    have hxs : (32 : UInt8) ∉ xs := fun m => h (by simp [m])
    simp [cutSpace, hx, ih hxs]

/-- A bearer token is extracted exactly from a first `authorization` value of the form `<scheme> <token>` whose
scheme (up to the first space) is "bearer" in any letter case.  No metadata value: rejected. -/
theorem authFromMD_some_iff (vals : List Bytes) (tok : Bytes) :
    authFromMD vals = some tok ↔
      ∃ v rest scheme, vals = v :: rest ∧ v = scheme ++ 32 :: tok ∧ (32 : UInt8) ∉ scheme ∧ scheme.map lowerAscii = bearerLower := by
  constructor
  · intro h
    cases vals with
    | nil => simp [authFromMD] at h
    | cons v rest =>
      simp only [authFromMD] at h
      split at h
      · cases h
      · rename_i s t hc
        obtain ⟨h1, h2⟩ := cutSpace_sound v s t hc
        split at h
        · rename_i hb
          simp at h; subst h
          exact ⟨v, rest, s, rfl, h1, h2, by simpa [schemeIsBearer] using hb⟩
        · cases h
  · rintro ⟨v, rest, scheme, rfl, rfl, hn, hb⟩
    simp [authFromMD, cutSpace_complete scheme tok hn, schemeIsBearer, hb]

theorem authFromMD_missing : authFromMD [] = none := rfl

/-! ## Pre-shared keys -/

theorem ctEq_le {Hash : Type} [DecidableEq Hash] (a b : Hash) : ctEq a b ≤ 1 := by unfold ctEq; split <;> simp

theorem lor_bits (a b : Nat) (ha : a ≤ 1) (hb : b ≤ 1) : a ||| b ≤ 1 ∧ (a ||| b = 1 ↔ a = 1 ∨ b = 1) := by
  have ha' : a = 0 ∨ a = 1 := by omega
  have hb' : b = 0 ∨ b = 1 := by omega
  rcases ha' with rfl | rfl <;> rcases hb' with rfl | rfl <;> decide

/-- the OR of the constant-time comparisons is 1 exactly when some key hash equals the token hash -/
theorem matchedFold_spec {Hash : Type} [DecidableEq Hash] (th : Hash) (hs : List Hash) (acc : Nat) (hacc : acc ≤ 1) :
    matchedFold th hs acc ≤ 1 ∧ (matchedFold th hs acc = 1 ↔ acc = 1 ∨ th ∈ hs) := by
  induction hs generalizing acc with
  | nil => simp [matchedFold, hacc]
  | cons kh rest ih =>
    unfold matchedFold
    have hb := lor_bits acc (ctEq th kh) hacc (ctEq_le th kh)
    obtain ⟨h1, h2⟩ := ih (acc ||| ctEq th kh) hb.1
    refine ⟨h1, ?_⟩
    rw [h2, hb.2]
    unfold ctEq
    by_cases he : th = kh
    · subst he; simp
    · simp only [he, if_false, List.mem_cons, false_or]
      constructor
      · rintro (h | h)
        · rcases h with h | h
          · exact Or.inl h
          · cases h
        · exact Or.inr h
      · rintro (h | h)
        · exact Or.inl (Or.inl h)
        · exact Or.inr h

/-- **preshared_accept_iff**: a request is authenticated exactly when it carries a bearer token whose hash equals
the hash of one of the configured keys — for every hash function, key list and header list. -/
theorem preshared_accept_iff {Hash : Type} [DecidableEq Hash] (H : Bytes → Hash) (keys : List Bytes) (vals : List Bytes) :
    presharedAuthenticate H (keys.map H) vals = .accepted ↔
      ∃ tok, authFromMD vals = some tok ∧ ∃ k ∈ keys, H tok = H k := by
  unfold presharedAuthenticate
  cases ha : authFromMD vals with
  | none => simp
  | some tok =>
    have := (matchedFold_spec (H tok) (keys.map H) 0 (by omega)).2
    simp only [Option.some.injEq, exists_eq_left']
    constructor
    · intro h
      split at h
      · rename_i hm
        have := this.mp hm
        simp at this
        obtain ⟨k, hk, he⟩ := this
        exact ⟨k, hk, he.symm⟩
      · cases h
    · rintro ⟨k, hk, he⟩
      have hm : matchedFold (H tok) (keys.map H) 0 = 1 := this.mpr (Or.inr (List.mem_map.mpr ⟨k, hk, he.symm⟩))
      simp [hm]

/-- … i.e. exactly when the token equals one of the configured keys, provided the hash does not collide on the
compared strings (hypothesis; SHA-256 is trusted here, not proved). -/
theorem preshared_accept_iff_key {Hash : Type} [DecidableEq Hash] (H : Bytes → Hash) (keys : List Bytes) (vals : List Bytes)
    (hinj : ∀ tok, ∀ k ∈ keys, H tok = H k → tok = k) :
    presharedAuthenticate H (keys.map H) vals = .accepted ↔ ∃ tok, authFromMD vals = some tok ∧ tok ∈ keys := by
  rw [preshared_accept_iff]
  constructor
  · rintro ⟨tok, ha, k, hk, he⟩; exact ⟨tok, ha, (hinj tok k hk he) ▸ hk⟩
  · rintro ⟨tok, ha, hk⟩; exact ⟨tok, ha, tok, hk, rfl⟩

/-- a missing / malformed / non-bearer header is never authenticated and is reported as "missing bearer token" -/
theorem preshared_missing_bearer {Hash : Type} [DecidableEq Hash] (H : Bytes → Hash) (hashes : List Hash) (vals : List Bytes)
    (h : authFromMD vals = none) : presharedAuthenticate H hashes vals = .missingBearer := by
  unfold presharedAuthenticate; rw [h]

theorem preshared_new_needs_a_key {Hash : Type} (H : Bytes → Hash) : presharedNew H [] = none := rfl

/-- the middleware attaches claims iff the authenticator accepted -/
theorem authFunc_claims_iff (r : PskResult) : (authFunc r).1 = some () ↔ r = .accepted := by
  cases r <;> simp [authFunc]

/-- non-vacuity (identity "hash"): the right key in any letter case of the scheme is accepted, a prefix of it is not -/
example :
    presharedAuthenticate id ([[115, 51], [107]].map id) [[66, 69, 97, 114, 101, 114, 32, 115, 51]] = .accepted ∧
    presharedAuthenticate id ([[115, 51], [107]].map id) [[66, 101, 97, 114, 101, 114, 32, 115]] = .unauthenticated ∧
    presharedAuthenticate id ([[115, 51], [107]].map id) [[66, 97, 115, 105, 99, 32, 115, 51]] = .missingBearer ∧
    presharedAuthenticate id ([[115, 51], [107]].map id) [] = .missingBearer := by decide

/-! ## OIDC -/

def Accepts (r : OidcResult) : Prop := ∃ s c sc, r = .accepted s c sc

/-- the exact acceptance condition of the code as written -/
def ExactCond (cfg : Config) (now : Int) (t : Token) : Prop :=
  t.wellFormed = true ∧ t.alg = "RS256" ∧ t.sigOk = true ∧
  (∃ e, t.exp = .val e ∧ now < e) ∧
  numNotFuture now t.nbf = true ∧ numNotFuture now t.iat = true ∧
  audOk cfg.audience t.aud = true ∧
  (∃ i ∈ cfg.mainIssuer :: cfg.aliases, i = "" ∨ strIs i t.iss = true) ∧
  (cfg.subjects ≠ [] → ∃ s ∈ cfg.subjects, s = "" ∨ strIs s t.sub = true) ∧
  t.sub ≠ .bad

theorem numNotPassed_required_iff (now : Int) (c : NumClaim) :
    numNotPassed now true c = true ↔ ∃ e, c = .val e ∧ now < e := by
  cases c <;> simp [numNotPassed]

theorem numNotPassed_weaken (now : Int) (c : NumClaim) (h : numNotPassed now true c = true) :
    numNotPassed now false c = true := by
  cases c <;> simp_all [numNotPassed]

theorem parse_template_iff (cfg : Config) (now : Int) (t : Token) :
    parse parserTemplate cfg now t = true ↔
      t.wellFormed = true ∧ t.alg = "RS256" ∧ t.sigOk = true ∧ (∃ e, t.exp = .val e ∧ now < e) ∧
      numNotFuture now t.nbf = true ∧ numNotFuture now t.iat = true ∧ audOk cfg.audience t.aud = true := by
  simp only [parse, validate, parserTemplate, resolveArg, Bool.and_eq_true, Bool.or_eq_true, numNotPassed_required_iff]
  simp
  constructor
  · rintro ⟨⟨⟨h1, h2⟩, h3⟩, ⟨⟨h4, h5⟩, h6⟩, h7⟩; exact ⟨h1, h2, h3, h4, h5, h6, h7⟩
  · rintro ⟨h1, h2, h3, h4, h5, h6, h7⟩; exact ⟨⟨⟨h1, h2⟩, h3⟩, ⟨⟨h4, h5⟩, h6⟩, h7⟩

theorem validate_issuer_iff (cfg : Config) (now : Int) (t : Token) (i : String)
    (hexp : numNotPassed now true t.exp = true) (hnbf : numNotFuture now t.nbf = true) :
    validate issuerTemplate cfg i now t = true ↔ (i = "" ∨ strIs i t.iss = true) := by
  simp [validate, issuerTemplate, resolveArg, numNotPassed_weaken now t.exp hexp, hnbf]

theorem validate_subject_iff (cfg : Config) (now : Int) (t : Token) (s : String)
    (hexp : numNotPassed now true t.exp = true) (hnbf : numNotFuture now t.nbf = true) :
    validate subjectTemplate cfg s now t = true ↔ (s = "" ∨ strIs s t.sub = true) := by
  simp [validate, subjectTemplate, resolveArg, numNotPassed_weaken now t.exp hexp, hnbf]

/-- the control flow of `Authenticate`, for arbitrary templates -/
theorem core_accepts_unfold (ptpl : VTemplate) (isrc : List IssuerSrc) (itpl stpl : VTemplate) (g : Bool)
    (cfg : Config) (now : Int) (view : Bytes → Token) (vals : List Bytes) :
    Accepts (oidcCore ptpl isrc itpl stpl g cfg now view vals) ↔
      ∃ tok, authFromMD vals = some tok ∧ parse ptpl cfg now (view tok) = true ∧
        (issuersOf cfg isrc).any (fun i => validate itpl cfg i now (view tok)) = true ∧
        ((!g || decide (cfg.subjects.length > 0)) && !cfg.subjects.any (fun s => validate stpl cfg s now (view tok))) = false ∧
        (view tok).sub ≠ .bad := by
  unfold oidcCore Accepts
  cases ha : authFromMD vals with
  | none => simp
  | some tok =>
    simp only [Option.some.injEq, exists_eq_left']
    by_cases hp : parse ptpl cfg now (view tok) = true
    · by_cases hi : (issuersOf cfg isrc).any (fun i => validate itpl cfg i now (view tok)) = true
      · by_cases hs : ((!g || decide (cfg.subjects.length > 0)) && !cfg.subjects.any (fun s => validate stpl cfg s now (view tok))) = true
        · simp [hp, hi, hs]
        · have hs' : ((!g || decide (cfg.subjects.length > 0)) && !cfg.subjects.any (fun s => validate stpl cfg s now (view tok))) = false := by
            simpa using hs
          cases hsb : (view tok).sub <;> simp [hp, hi, hs']
      · simp [hp, hi]
    · simp [hp]

theorem core_accept_iff (cfg : Config) (now : Int) (view : Bytes → Token) (vals : List Bytes) :
    Accepts (oidcCore parserTemplate [.main, .aliases] issuerTemplate subjectTemplate true cfg now view vals) ↔
      ∃ tok, authFromMD vals = some tok ∧ ExactCond cfg now (view tok) := by
  rw [core_accepts_unfold]
  constructor
  · rintro ⟨tok, ha, hp, hi, hs, hsb⟩
    refine ⟨tok, ha, ?_⟩
    obtain ⟨h1, h2, h3, h4, h5, h6, h7⟩ := (parse_template_iff cfg now (view tok)).mp hp
    have hexp : numNotPassed now true (view tok).exp = true := (numNotPassed_required_iff _ _).mpr h4
    refine ⟨h1, h2, h3, h4, h5, h6, h7, ?_, ?_, hsb⟩
    · simp only [issuersOf, List.append_nil, List.any_eq_true] at hi
      obtain ⟨i, him, hv⟩ := hi
      exact ⟨i, him, (validate_issuer_iff cfg now _ i hexp h5).mp hv⟩
    · intro hne
      have hlen : cfg.subjects.length > 0 := by
        cases hc : cfg.subjects with
        | nil => exact absurd hc hne
        | cons a b => simp
      simp only [Bool.not_true, Bool.false_or, hlen, decide_true, Bool.true_and, Bool.not_eq_false'] at hs
      simp only [List.any_eq_true] at hs
      obtain ⟨s, hsm, hv⟩ := hs
      exact ⟨s, hsm, (validate_subject_iff cfg now _ s hexp h5).mp hv⟩
  · rintro ⟨tok, ha, h1, h2, h3, h4, h5, h6, h7, h8, h9, h10⟩
    have hexp : numNotPassed now true (view tok).exp = true := (numNotPassed_required_iff _ _).mpr h4
    refine ⟨tok, ha, (parse_template_iff cfg now (view tok)).mpr ⟨h1, h2, h3, h4, h5, h6, h7⟩, ?_, ?_, h10⟩
    · simp only [issuersOf, List.append_nil, List.any_eq_true]
      obtain ⟨i, him, hv⟩ := h8
      exact ⟨i, him, (validate_issuer_iff cfg now _ i hexp h5).mpr hv⟩
    · by_cases hlen : cfg.subjects.length > 0
      · have hne : cfg.subjects ≠ [] := by intro e; rw [e] at hlen; simp at hlen
        obtain ⟨s, hsm, hv⟩ := h9 hne
        have : cfg.subjects.any (fun s => validate subjectTemplate cfg s now (view tok)) = true :=
          List.any_eq_true.mpr ⟨s, hsm, (validate_subject_iff cfg now _ s hexp h5).mpr hv⟩
        simp [this]
      · simp [hlen]

/-- **oidc_accept_iff**: the authenticator built from the option lists found in the source accepts a request exactly
when it carries a bearer token that is well formed, RS256, signed by a key of the issuer's key set, has an expiry
that has not passed, no `nbf` / `iat` in the future, names the configured audience, names the configured issuer or an
alias (an empty-string alias matches everything), and — when subjects are configured — names a configured subject
(an empty-string entry matches everything); the `sub` claim, if present, must be a string.
For every configuration, clock value, token view and header list. -/
theorem oidc_accept_iff (cfg : Config) (now : Int) (view : Bytes → Token) (vals : List Bytes) :
    Accepts (oidcAuthenticate Gen.Authn.parserOptions Gen.Authn.validIssuers Gen.Authn.validatorOptions Gen.Authn.subjectGuard
      cfg now view vals) ↔ ∃ tok, authFromMD vals = some tok ∧ ExactCond cfg now (view tok) := by
  unfold oidcAuthenticate
  rw [tie_parser_options.1, tie_issuers, tie_validators.2.1, tie_validators.2.2, tie_subject_guard]
  exact core_accept_iff cfg now view vals

/-- the property as worded -/
def StatedCond (cfg : Config) (now : Int) (t : Token) : Prop :=
  t.wellFormed = true ∧ t.alg = "RS256" ∧ t.sigOk = true ∧
  (∃ e, t.exp = .val e ∧ now < e) ∧
  (∀ i, t.iat = .val i → ¬ now < i) ∧
  (∃ l, t.aud = .vals l ∧ cfg.audience ∈ l) ∧
  (∃ i ∈ cfg.mainIssuer :: cfg.aliases, t.iss = .val i) ∧
  (cfg.subjects ≠ [] → ∃ s ∈ cfg.subjects, t.sub = .val s)

def FullOidcStatement : Prop :=
  ∀ (cfg : Config) (now : Int) (view : Bytes → Token) (vals : List Bytes),
    cfg.mainIssuer ≠ "" → cfg.audience ≠ "" →
    (Accepts (oidcAuthenticate Gen.Authn.parserOptions Gen.Authn.validIssuers Gen.Authn.validatorOptions Gen.Authn.subjectGuard
      cfg now view vals) ↔ ∃ tok, authFromMD vals = some tok ∧ StatedCond cfg now (view tok))

/-- side conditions under which the code does exactly what the property says: no empty-string alias / subject in the
configuration; the token's `nbf`, `iat`, `sub` claims are well typed and `nbf` is not in the future -/
structure SideConditions (cfg : Config) (now : Int) (t : Token) : Prop where
  issuer_nonempty : cfg.mainIssuer ≠ ""
  audience_nonempty : cfg.audience ≠ ""
  aliases_nonempty : "" ∉ cfg.aliases
  subjects_nonempty : "" ∉ cfg.subjects
  nbf_ok : numNotFuture now t.nbf = true
  iat_typed : t.iat ≠ .bad
  sub_typed : t.sub ≠ .bad

theorem strIs_iff (e : String) (c : StrClaim) (he : e ≠ "") : strIs e c = true ↔ c = .val e := by
  cases c with
  | absent => simp [strIs]
  | bad => simp [strIs]
  | val s =>
    simp only [strIs, StrClaim.val.injEq]
    by_cases hs : s = ""
    · simp [hs]; exact fun h => he h
    · simp [hs]

theorem audOk_iff (a : String) (c : AudClaim) (ha : a ≠ "") : audOk a c = true ↔ ∃ l, c = .vals l ∧ a ∈ l := by
  cases c with
  | absent => simp [audOk]
  | bad => simp [audOk]
  | vals l =>
    simp only [audOk, AudClaim.vals.injEq, exists_eq_left']
    by_cases h1 : l = []
    · simp [h1]
    · by_cases h2 : l = [""]
      · simp [h2]; exact fun h => ha h
      · simp [h1, h2]

/-- **oidc_statement_partial**: under the side conditions the code accepts exactly what the property says. -/
theorem oidc_statement_partial (cfg : Config) (now : Int) (view : Bytes → Token) (vals : List Bytes)
    (hside : ∀ tok, authFromMD vals = some tok → SideConditions cfg now (view tok)) :
    Accepts (oidcAuthenticate Gen.Authn.parserOptions Gen.Authn.validIssuers Gen.Authn.validatorOptions Gen.Authn.subjectGuard
      cfg now view vals) ↔ ∃ tok, authFromMD vals = some tok ∧ StatedCond cfg now (view tok) := by
  rw [oidc_accept_iff]
  constructor
  · rintro ⟨tok, ha, h1, h2, h3, h4, h5, h6, h7, h8, h9, h10⟩
    have sc := hside tok ha
    refine ⟨tok, ha, h1, h2, h3, h4, ?_, (audOk_iff _ _ sc.audience_nonempty).mp h7, ?_, ?_⟩
    · intro i hi; rw [hi] at h6; simpa [numNotFuture] using h6
    · obtain ⟨i, hi, hv⟩ := h8
      have hne : i ≠ "" := by
        rcases List.mem_cons.mp hi with rfl | hm
        · exact sc.issuer_nonempty
        · intro e; exact sc.aliases_nonempty (e ▸ hm)
      rcases hv with hv | hv
      · exact absurd hv hne
      · exact ⟨i, hi, (strIs_iff i _ hne).mp hv⟩
    · intro hs
      obtain ⟨s, hsm, hv⟩ := h9 hs
      have hne : s ≠ "" := by intro e; exact sc.subjects_nonempty (e ▸ hsm)
      rcases hv with hv | hv
      · exact absurd hv hne
      · exact ⟨s, hsm, (strIs_iff s _ hne).mp hv⟩
  · rintro ⟨tok, ha, h1, h2, h3, h4, h5, h6, h7, h8⟩
    have sc := hside tok ha
    refine ⟨tok, ha, h1, h2, h3, h4, sc.nbf_ok, ?_, (audOk_iff _ _ sc.audience_nonempty).mpr h6, ?_, ?_, sc.sub_typed⟩
    · cases hi : (view tok).iat with
      | absent => rfl
      | bad => exact absurd hi sc.iat_typed
      | val i => simpa [numNotFuture] using h5 i hi
    · obtain ⟨i, hi, hv⟩ := h7
      have hne : i ≠ "" := by
        rcases List.mem_cons.mp hi with rfl | hm
        · exact sc.issuer_nonempty
        · intro e; exact sc.aliases_nonempty (e ▸ hm)
      exact ⟨i, hi, Or.inr ((strIs_iff i _ hne).mpr hv)⟩
    · intro hs
      obtain ⟨s, hsm, hv⟩ := h8 hs
      have hne : s ≠ "" := by intro e; exact sc.subjects_nonempty (e ▸ hsm)
      exact ⟨s, hsm, Or.inr ((strIs_iff s _ hne).mpr hv)⟩

def exToken (iss : StrClaim) (nbf : NumClaim) : Token :=
  { wellFormed := true, alg := "RS256", sigOk := true, exp := .val 100, iat := .val 1, nbf := nbf,
    aud := .vals ["api"], iss := iss, sub := .val "mallory", other := [] }

def bearerX : List Bytes := [[66, 101, 97, 114, 101, 114, 32, 120]]

set_option maxRecDepth 100000 in
/-- negation witness 1 (lax): with an empty-string issuer alias in the configuration a correctly signed token of
*any* issuer is accepted. -/
theorem oidc_empty_alias_accepts_any_issuer :
    Accepts (oidcAuthenticate Gen.Authn.parserOptions Gen.Authn.validIssuers Gen.Authn.validatorOptions Gen.Authn.subjectGuard
      ⟨"https://idp", [""], "api", [], []⟩ 10 (fun _ => exToken (.val "https://evil") .absent) bearerX) := by
  refine ⟨"mallory", "", none, ?_⟩
  decide

set_option maxRecDepth 100000 in
/-- negation witness 2 (strict): a token that satisfies everything the property lists but carries a `nbf` in the
future is refused. -/
theorem oidc_rejects_future_nbf :
    oidcAuthenticate Gen.Authn.parserOptions Gen.Authn.validIssuers Gen.Authn.validatorOptions Gen.Authn.subjectGuard
      ⟨"https://idp", [], "api", [], []⟩ 10 (fun _ => exToken (.val "https://idp") (.val 50)) bearerX = .invalidClaims := by
  decide

theorem full_statement_fails : ¬ FullOidcStatement := by
  intro h
  have h1 := (h ⟨"https://idp", [""], "api", [], []⟩ 10 (fun _ => exToken (.val "https://evil") .absent) bearerX
    (by decide) (by decide)).mp oidc_empty_alias_accepts_any_issuer
  obtain ⟨tok, _, _, _, _, _, _, _, ⟨i, hi, hv⟩, _⟩ := h1
  simp [exToken] at hv
  subst hv
  simp at hi

def exCfg : Config := ⟨"https://idp", ["https://alias"], "api", ["alice"], []⟩
def exGood : Token := {
  wellFormed := true, alg := "RS256", sigOk := true,
  exp := NumClaim.val 100, iat := NumClaim.val 1, nbf := NumClaim.absent,
  aud := AudClaim.vals ["x", "api"], iss := StrClaim.val "https://alias", sub := StrClaim.val "alice",
  other := [("client_id", StrClaim.val "app")] }
def exRun (t : Token) : OidcResult :=
  oidcAuthenticate Gen.Authn.parserOptions Gen.Authn.validIssuers Gen.Authn.validatorOptions Gen.Authn.subjectGuard exCfg 10 (fun _ => t) bearerX

set_option maxRecDepth 100000 in
/-- non-vacuity: a good token is accepted, and each single defect is refused -/
example :
    exRun exGood = .accepted "alice" "app" none ∧
    exRun { exGood with alg := "HS256" } = .invalidClaims ∧
    exRun { exGood with sigOk := false } = .invalidClaims ∧
    exRun { exGood with exp := NumClaim.absent } = .invalidClaims ∧
    exRun { exGood with exp := NumClaim.val 10 } = .invalidClaims ∧
    exRun { exGood with iat := NumClaim.val 11 } = .invalidClaims ∧
    exRun { exGood with aud := AudClaim.vals ["x"] } = .invalidClaims ∧
    exRun { exGood with iss := StrClaim.val "https://evil" } = .invalidClaims ∧
    exRun { exGood with sub := StrClaim.val "bob" } = .invalidClaims := by
  decide

set_option maxRecDepth 100000 in
/-- after construction only the JWKS location and key set are ever written: the accepted issuers, aliases, audience
and subjects come from the configuration alone (a discovery document cannot widen them) -/
theorem tie_oidc_field_writes : Gen.Authn.oidcFieldWrites =
    ["NewRemoteOidcAuthenticator: client.Logger = nil",
     "NewRemoteOidcAuthenticator: oidc.ClientIDClaims = []string{\"azp\", \"client_id\"}",
     "fetchJWK: oidc.JwksURI = oidcConfig.JWKsURI",
     "fetchJWK: oidc.JWKs = jwks"] := by decide

end OpenFGAVerif.C27
