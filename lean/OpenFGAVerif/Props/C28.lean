/-
C28 — Continuation tokens round-trip and resist tampering.

Property theorems (model: `Model.Token`, data regenerated from the Go source: `Gen.Token`).
Partial by design: AES-GCM itself is an abstract `AEAD`; its correctness and integrity are
hypotheses of the theorems that use them, never axioms.
-/
import OpenFGAVerif.Model.Token
import OpenFGAVerif.Gen.Token

namespace OpenFGAVerif.C28
open OpenFGAVerif.Model.Token

/-! ## Ties to the regenerated data -/

/-- `Serialize` writes and `Deserialize` cuts at the same, one-byte separator. -/
theorem tie_separator :
    Gen.Token.serializeSep = Gen.Token.deserializeSep ∧ Gen.Token.serializeSep = [124] := by decide

/-- The base64 flavour is the padded URL alphabet on both sides. -/
theorem tie_base64_flavour :
    Gen.Token.base64EncodeFlavour = "URLEncoding.EncodeToString" ∧
    Gen.Token.base64DecodeFlavour = "URLEncoding.DecodeString" := by decide

/-- `TokenEncoder.Encode` = encrypt then base64; `Decode` = base64-decode then decrypt. -/
theorem tie_stage_order :
    Gen.Token.encodeStages.map stageOfName = [.encrypt, .b64encode] ∧
    Gen.Token.decodeStages.map stageOfName = [.b64decode, .decrypt] := by decide

theorem tie_gcm_shape :
    Gen.Token.gcmEncryptEmptyPassthrough = true ∧ Gen.Token.gcmDecryptEmptyPassthrough = true ∧
    Gen.Token.gcmSealPrependsNonce = true ∧ Gen.Token.gcmOpenSplitsNonce = true := by decide

/-- the AES key is the SHA-256 digest of the *whole* configured secret (so that different secrets give
different keys up to SHA-256 collisions); the hash itself is trusted. -/
theorem tie_key_derivation :
    Gen.Token.keyDerivationBody = "{ sum := sha256.Sum256([]byte(s)) return sum[:] }" := by decide

/-- every paginated handler (models, read, changes, stores) hands the server's token encoder to its query -/
theorem tie_encoder_sites : Gen.Token.encoderSites =
    ["authorization_models.go:commands.WithReadAuthModelsQueryEncoder(s.encoder)",
     "read.go:commands.WithReadQueryEncoder(s.encoder)",
     "read_changes.go:commands.WithReadChangesQueryEncoder(s.encoder)",
     "stores.go:commands.WithListStoresQueryEncoder(s.encoder)"] := by decide

/-! ## Serializer -/

theorem cut1_append (b : UInt8) (u t : Bytes) (h : b ∉ u) : cut1 b (u ++ b :: t) = some (u, t) := by
  induction u with
  | nil => simp [cut1]
  | cons x xs ih =>
    have hx : x ≠ b := fun e => h (by simp [e])
    have hxs : b ∉ xs := fun m => h (by simp [m])
    simp [cut1, hx, ih hxs]

theorem cut1_sound (b : UInt8) (s u t : Bytes) (h : cut1 b s = some (u, t)) : s = u ++ b :: t ∧ b ∉ u := by
  induction s generalizing u with
  | nil => simp [cut1] at h
  | cons x xs ih =>
    unfold cut1 at h
    split at h
    · rename_i hx; simp at h; obtain ⟨rfl, rfl⟩ := h; simp [hx]
    · rename_i hx
      split at h
      · simp at h
      · rename_i l r hc
        simp at h; obtain ⟨rfl, rfl⟩ := h
        obtain ⟨h1, h2⟩ := ih l hc
        refine ⟨by simp [h1], ?_⟩
        intro m; simp at m; rcases m with m | m
        · exact hx m.symm
        · exact h2 m

/-- **Round trip** (`Deserialize ∘ Serialize = id`) for every non-empty position that does not contain
the separator and every type filter — with the separators the source uses today. -/
theorem serializer_roundtrip (ulid objType : Bytes) (hne : ulid ≠ []) (hsep : (124 : UInt8) ∉ ulid) :
    (serialize Gen.Token.serializeSep ulid objType).bind (deserialize Gen.Token.deserializeSep)
      = some (ulid, objType) := by
  obtain ⟨h1, h2⟩ := tie_separator
  rw [← h1, h2]
  simp [serialize, hne, deserialize, cut, cut1_append 124 ulid objType hsep]

/-- Empty positions are rejected by `Serialize` (the real code returns an error). -/
theorem serialize_rejects_empty (objType : Bytes) : serialize Gen.Token.serializeSep [] objType = none := by
  simp [serialize]

/-- **No misreading**: whatever `Deserialize` accepts is literally `ulid ‖ sep ‖ type` with a non-empty
ulid that contains no separator, so two different accepted tokens never decode to the same position
and a token never decodes to a position other than the one spelled out in it. -/
theorem deserialize_sound (tok u t : Bytes) (h : deserialize Gen.Token.deserializeSep tok = some (u, t)) :
    tok = u ++ Gen.Token.deserializeSep ++ t ∧ u ≠ [] ∧ (124 : UInt8) ∉ u := by
  obtain ⟨h1, h2⟩ := tie_separator
  rw [← h1, h2] at h ⊢
  unfold deserialize cut at h
  simp only at h
  split at h
  · simp at h
  · rename_i u' t' hc
    split at h
    · simp at h
    · rename_i hu
      simp at h; obtain ⟨rfl, rfl⟩ := h
      obtain ⟨e, n⟩ := cut1_sound _ _ _ _ hc
      exact ⟨by simp [e], hu, n⟩

theorem deserialize_injective (t1 t2 p : Bytes) (q : Bytes)
    (h1 : deserialize Gen.Token.deserializeSep t1 = some (p, q))
    (h2 : deserialize Gen.Token.deserializeSep t2 = some (p, q)) : t1 = t2 := by
  rw [(deserialize_sound _ _ _ h1).1, (deserialize_sound _ _ _ h2).1]

/-! ## ReadChanges token gate: a token is bound to the type filter it was issued for -/

/-- The guards of `ReadChangesQuery.Execute` between decoding the token and calling the backend, as read from
the source: undecodable → invalid token, empty → start, undeserializable → invalid token, other type filter →
mismatch; the position handed to the backend is the deserialized ulid, the filter the request's type, and the
next token is serialized from the backend's position and the request's type. -/
theorem tie_read_changes_gate :
    Gen.Token.readChangesGate =
      ["err != nil => serverErrors.ErrInvalidContinuationToken",
       "req.GetStartTime() != nil => -",
       "token != \"\" => -",
       "err != nil => serverErrors.ErrInvalidContinuationToken",
       "objType != req.GetType() => serverErrors.ErrMismatchObjectType",
       "!startTime.IsZero() => -",
       "ulidErr != nil => serverErrors.HandleError(ulidErr.Error(), storage.ErrInvalidStartTime)"]
    ∧ Gen.Token.readChangesCodecCalls =
      ["decodedContToken,err = q.encoder.Decode(req.GetContinuationToken())",
       "fromUlid,objType,err = q.tokenSerializer.Deserialize(token)",
       "contToken,err = q.tokenSerializer.Serialize(contUlid, req.GetType())",
       "encodedContToken,err = q.encoder.Encode(contToken)"]
    ∧ Gen.Token.readChangesBackendArgs = ["from: fromUlid", "ObjectType: req.GetType()"] := by
  decide

/-- **A token issued for `(u, T)` presented with filter `T'`** resumes exactly at `u` when `T' = T` and is
rejected as a mismatch otherwise — for every non-empty separator-free position and all type filters. -/
theorem rcGate_issued (u T T' tok : Bytes) (hne : u ≠ []) (hsep : (124 : UInt8) ∉ u)
    (hi : rcIssue Gen.Token.serializeSep u T = some tok) :
    rcGate Gen.Token.deserializeSep tok T' = if T = T' then .resume u else .mismatch := by
  have hr := serializer_roundtrip u T hne hsep
  simp only [rcIssue, hne, if_false] at hi
  rw [hi] at hr
  simp only [Option.bind_some] at hr
  have htok : tok ≠ [] := by
    intro e; subst e
    simp [serialize, hne] at hi
  unfold rcGate
  simp only [htok, if_false, hr]
  by_cases h : T = T' <;> simp [h]

/-- **No other position**: whenever the gate lets a token through, the token literally spells out the position
the backend is asked to resume from and the request's own type filter; a token is never read as a position
or a filter other than the one written in it. -/
theorem rcGate_resume_sound (tok T u : Bytes) (h : rcGate Gen.Token.deserializeSep tok T = .resume u) :
    tok = u ++ Gen.Token.deserializeSep ++ T ∧ u ≠ [] ∧ (124 : UInt8) ∉ u := by
  unfold rcGate at h
  split at h
  · simp at h
  · split at h
    · simp at h
    · rename_i u' t' hd
      split at h
      · simp at h
      · rename_i ht
        simp only [ne_eq, Decidable.not_not] at ht
        simp only [Gate.resume.injEq] at h
        subst h; subst ht
        exact deserialize_sound _ _ _ hd

/-- Issuing never produces a token for "no further position", and what it produces for a real position is
accepted by the gate under the same filter (page chaining). -/
theorem rcIssue_chain (u T tok : Bytes) (hne : u ≠ []) (hsep : (124 : UInt8) ∉ u)
    (hi : rcIssue Gen.Token.serializeSep u T = some tok) :
    rcGate Gen.Token.deserializeSep tok T = .resume u := by
  simpa using rcGate_issued u T T tok hne hsep hi

example : rcGate Gen.Token.deserializeSep [48, 49, 124, 100] [100] = .resume [48, 49]
    ∧ rcGate Gen.Token.deserializeSep [48, 49, 124, 100] [101] = .mismatch
    ∧ rcGate Gen.Token.deserializeSep [124, 100] [100] = .invalid
    ∧ rcGate Gen.Token.deserializeSep [] [100] = .start := by decide

/-! ## the SQL datastores' position serializer (pkg/storage/sqlcommon) -/

def expectedSqlDeserializeBody : String :=
  "{ var token ContToken if err := json.Unmarshal([]byte(continuationToken), &token); err != nil { return \"\", \"\", storage.ErrInvalidContinuationToken } return token.Ulid, token.ObjectType, nil }"

set_option maxRecDepth 100000 in
/-- `SQLContinuationTokenSerializer` is `json.Marshal` / `json.Unmarshal` of one struct with the two fields in
place (the round trip is then encoding/json's, exercised by the `sqlser` correspondence cases) -/
theorem tie_sql_serializer :
    (Gen.Token.sqlSerializeBody ==
      "{ if ulid == \"\" { return nil, errors.New(\"empty ulid provided for continuation token\") } return json.Marshal(NewContToken(ulid, objType)) }") = true
    ∧ (Gen.Token.sqlDeserializeBody == expectedSqlDeserializeBody) = true
    ∧ Gen.Token.sqlNewContTokenBody = "{ return &ContToken{ Ulid: ulid, ObjectType: objectType, } }" := by decide

/-! ## base64 (URL alphabet, padded) -/

theorem decChar_encChar_fin : ∀ i : Fin 64, decChar (encChar i.val) = some i.val := by decide
theorem encChar_ne_pad_fin : ∀ i : Fin 64, encChar i.val ≠ pad := by decide
theorem encChar_not_newline_fin : ∀ i : Fin 64, isNewline (encChar i.val) = false := by decide

theorem decChar_encChar (i : Nat) (h : i < 64) : decChar (encChar i) = some i := decChar_encChar_fin ⟨i, h⟩
theorem encChar_ne_pad (i : Nat) (h : i < 64) : encChar i ≠ pad := encChar_ne_pad_fin ⟨i, h⟩
theorem encChar_not_newline (i : Nat) (h : i < 64) : isNewline (encChar i) = false := encChar_not_newline_fin ⟨i, h⟩

theorem pad_not_newline : isNewline pad = false := by decide

theorem b64encode_eq_nil (d : Bytes) : b64encode d = [] ↔ d = [] := by
  constructor
  · intro h
    match d with
    | [] => rfl
    | [_] => simp [b64encode] at h
    | [_, _] => simp [b64encode] at h
    | _ :: _ :: _ :: _ => simp [b64encode] at h
  · rintro rfl; rfl

theorem ofNat_toNat_eq (a : UInt8) (n : Nat) (h : n = a.toNat) : UInt8.ofNat n = a := by
  subst h; simp

theorem b64decodeCore_encode (d : Bytes) : b64decodeCore (b64encode d) = some d := by
  fun_induction b64encode d with
  | case1 => simp [b64decodeCore]
  | case2 a =>
    have ha := a.toNat_lt
    have h0 := decChar_encChar (a.toNat / 4) (by omega)
    have h1 := decChar_encChar (a.toNat % 4 * 16) (by omega)
    have e0 := ofNat_toNat_eq a (a.toNat / 4 * 4 + a.toNat % 4 * 16 / 16) (by omega)
    simp only [b64decodeCore, h0, h1, Option.bind_eq_bind, Option.bind_some, Option.pure_def, e0, and_self, if_true]
  | case3 a b =>
    have ha := a.toNat_lt
    have hb := b.toNat_lt
    have h0 := decChar_encChar (a.toNat / 4) (by omega)
    have h1 := decChar_encChar (a.toNat % 4 * 16 + b.toNat / 16) (by omega)
    have h2 := decChar_encChar (b.toNat % 16 * 4) (by omega)
    have n2 := encChar_ne_pad (b.toNat % 16 * 4) (by omega)
    have e0 := ofNat_toNat_eq a (a.toNat / 4 * 4 + (a.toNat % 4 * 16 + b.toNat / 16) / 16) (by omega)
    have e1 := ofNat_toNat_eq b ((a.toNat % 4 * 16 + b.toNat / 16) % 16 * 16 + b.toNat % 16 * 4 / 4) (by omega)
    simp only [b64decodeCore, h0, h1, h2, n2, Option.bind_eq_bind, Option.bind_some, Option.pure_def, e0, e1, and_self, if_true, if_false]
  | case4 a b c rest ih =>
    have ha := a.toNat_lt
    have hb := b.toNat_lt
    have hc := c.toNat_lt
    have h0 := decChar_encChar (a.toNat / 4) (by omega)
    have h1 := decChar_encChar (a.toNat % 4 * 16 + b.toNat / 16) (by omega)
    have h2 := decChar_encChar (b.toNat % 16 * 4 + c.toNat / 64) (by omega)
    have h3 := decChar_encChar (c.toNat % 64) (by omega)
    have n2 := encChar_ne_pad (b.toNat % 16 * 4 + c.toNat / 64) (by omega)
    have n3 := encChar_ne_pad (c.toNat % 64) (by omega)
    have e0 := ofNat_toNat_eq a (a.toNat / 4 * 4 + (a.toNat % 4 * 16 + b.toNat / 16) / 16) (by omega)
    have e1 := ofNat_toNat_eq b ((a.toNat % 4 * 16 + b.toNat / 16) % 16 * 16 + (b.toNat % 16 * 4 + c.toNat / 64) / 4) (by omega)
    have e2 := ofNat_toNat_eq c ((b.toNat % 16 * 4 + c.toNat / 64) % 4 * 64 + c.toNat % 64) (by omega)
    simp only [b64decodeCore, h0, h1, h2, h3, n2, n3, ih, Option.bind_eq_bind, Option.bind_some, Option.pure_def, e0, e1, e2, if_false]

theorem b64encode_no_newline (d : Bytes) : ∀ c ∈ b64encode d, isNewline c = false := by
  fun_induction b64encode d with
  | case1 => simp
  | case2 a =>
    have ha := a.toNat_lt
    intro c hc; simp at hc
    rcases hc with rfl | rfl | rfl
    · exact encChar_not_newline _ (by omega)
    · exact encChar_not_newline _ (by omega)
    · exact pad_not_newline
  | case3 a b =>
    have ha := a.toNat_lt
    have hb := b.toNat_lt
    intro c hc; simp at hc
    rcases hc with rfl | rfl | rfl | rfl
    · exact encChar_not_newline _ (by omega)
    · exact encChar_not_newline _ (by omega)
    · exact encChar_not_newline _ (by omega)
    · exact pad_not_newline
  | case4 a b c rest ih =>
    have ha := a.toNat_lt
    have hb := b.toNat_lt
    have hc := c.toNat_lt
    intro x hx; simp at hx
    rcases hx with rfl | rfl | rfl | rfl | hx
    · exact encChar_not_newline _ (by omega)
    · exact encChar_not_newline _ (by omega)
    · exact encChar_not_newline _ (by omega)
    · exact encChar_not_newline _ (by omega)
    · exact ih x hx

/-- **base64 round trip** for every byte string, through Go's newline-skipping decoder. -/
theorem b64_roundtrip (d : Bytes) : b64decode (b64encode d) = some d := by
  unfold b64decode
  have : (b64encode d).filter (fun c => !isNewline c) = b64encode d := by
    apply List.filter_eq_self.mpr
    intro c hc; simp [b64encode_no_newline d c hc]
  rw [this]; exact b64decodeCore_encode d

/-! ## AES-GCM wrapper and the whole TokenEncoder -/

theorem gcm_roundtrip (a : AEAD) (hc : a.Correct) (hn : 0 < a.nonceSize) (nonce data : Bytes)
    (hl : nonce.length = a.nonceSize) :
    gcmDecrypt a true (gcmEncrypt a true nonce data) = some data := by
  unfold gcmEncrypt
  by_cases hd : data = []
  · subst hd; simp [gcmDecrypt]
  · have hne : (nonce ++ a.sealF nonce data) ≠ [] := by
      intro e
      have : nonce = [] := (List.append_eq_nil_iff.mp e).1
      rw [this] at hl; simp at hl; omega
    have hlen : ¬ (nonce ++ a.sealF nonce data).length < a.nonceSize := by simp; omega
    simp [gcmDecrypt, hd, hne, hlen]
    rw [← hl]; simp
    exact hc nonce data hl

/-- **Token round trip**: `Decode (Encode d) = d` for the stage lists extracted from the source, for
every payload, nonce of the right size and every correct AEAD. -/
theorem token_roundtrip (a : AEAD) (hc : a.Correct) (hn : 0 < a.nonceSize) (nonce data : Bytes)
    (hl : nonce.length = a.nonceSize) :
    (runStages a (Gen.Token.gcmEncryptEmptyPassthrough, Gen.Token.gcmDecryptEmptyPassthrough) nonce
        (Gen.Token.encodeStages.map stageOfName) data).bind
      (runStages a (Gen.Token.gcmEncryptEmptyPassthrough, Gen.Token.gcmDecryptEmptyPassthrough) nonce
        (Gen.Token.decodeStages.map stageOfName)) = some data := by
  obtain ⟨e1, e2⟩ := tie_stage_order
  obtain ⟨g1, g2, _, _⟩ := tie_gcm_shape
  rw [e1, e2, g1, g2]
  simp [runStages, applyStage, b64_roundtrip, gcm_roundtrip a hc hn nonce data hl]

/-- The integrity assumption about the AEAD (idealised): only sealed ciphertexts open. -/
def Integrity (a : AEAD) : Prop :=
  ∀ nonce ct plain, a.openF nonce ct = some plain → ct = a.sealF nonce plain

/-- **Tamper resistance, conditional on AEAD integrity**: if the decrypt stage accepts some bytes and
yields a non-empty payload `p`, those bytes are exactly `nonce ‖ Seal(nonce, p)` — i.e. a token that was
not produced by encrypting `p` under this key is never decoded to `p`'s position or any other. -/
theorem tamper_rejected_partial (a : AEAD) (hi : Integrity a) (data p : Bytes) (hp : p ≠ [])
    (h : gcmDecrypt a true data = some p) :
    data = gcmEncrypt a true (data.take a.nonceSize) p := by
  unfold gcmDecrypt at h
  by_cases hd : data = []
  · subst hd; simp at h; exact absurd h hp
  · simp [hd] at h
    obtain ⟨_, h⟩ := h
    have := hi _ _ _ h
    simp [gcmEncrypt, hp]
    rw [← this]; simp

/-! ## Non-vacuity: the hypotheses are met by concrete values -/

/-- a toy AEAD that is correct and has integrity: "ciphertext" = plaintext ‖ nonce as tag. -/
def toyAEAD : AEAD where
  nonceSize := 2
  sealF := fun n p => p ++ n
  openF := fun n c => if c.drop (c.length - n.length) = n then some (c.take (c.length - n.length)) else none

example : toyAEAD.Correct := by
  intro n p _; simp [toyAEAD]

example : (serialize Gen.Token.serializeSep [48, 49] [100]).bind (deserialize Gen.Token.deserializeSep)
    = some ([48, 49], [100]) := serializer_roundtrip _ _ (by decide) (by decide)

example : b64decode (b64encode [1, 2, 3, 4]) = some [1, 2, 3, 4] := b64_roundtrip _

end OpenFGAVerif.C28
