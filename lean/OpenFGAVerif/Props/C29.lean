/-
C29 — Tuple and user string encodings round-trip.

Model: `Model.TupleStr` (every string function of pkg/tuple/tuple.go over byte strings, with Go's UTF-8
range-loop decoder and `unicode.IsControl`).  Spec: `Spec.TupleStr` (the grammar, over bytes, without a
decoder).  Data regenerated from the Go source: `Gen.TupleStr`.

Contents
  1. ties to the regenerated data (separators, `switch chr` tables, guards, call orders);
  2. validity predicates = documented grammar (∀ byte strings), with the exact set of rejected
     code points, and witnesses for what is *accepted* although it looks odd (Unicode spaces, invalid
     UTF-8, '*' in a userset's type, '@' in a userset's relation);
  3. round trips, each with its exact precondition, the corollary for valid values, and a proved
     negation witness where the round trip fails outside the precondition.
-/
import OpenFGAVerif.Proofs.TupleStrRoundtrip
import OpenFGAVerif.Gen.TupleStr

namespace OpenFGAVerif.C29
open OpenFGAVerif.Model.TupleStr OpenFGAVerif.Spec.TupleStr OpenFGAVerif.Proofs.TupleStr

/-! ## 1. Ties to the regenerated data -/

/-- Separator literals of the split / build functions, in source order, are the model's constants. -/
theorem tie_separators :
    Gen.TupleStr.wildcard = wildcard ∧
    Gen.TupleStr.splitObjectLits = [[cColon], []] ∧
    Gen.TupleStr.buildObjectLits = [[cColon]] ∧
    Gen.TupleStr.getObjectRelationAsStringLits = [[], [cHash]] ∧
    Gen.TupleStr.splitObjectRelationLits = [[cHash], [], []] ∧
    Gen.TupleStr.toObjectRelationStringLits = [[cHash]] ∧
    Gen.TupleStr.fromUserPartsLits = [[cColon], [cHash]] ∧
    Gen.TupleStr.stringToUserProtoLits = [[], [cStar], []] := by decide

/-- The (small) bodies of the split / build / composition functions are the ones that were modelled. -/
theorem tie_bodies :
    Gen.TupleStr.splitObjectBody = "{ ndx := strings.IndexByte(object, ':') if ndx == -1 { return \"\", object } return object[0:ndx], object[ndx+1:] }" ∧
    Gen.TupleStr.buildObjectBody = "{ return objectType + \":\" + objectID }" ∧
    Gen.TupleStr.getObjectRelationAsStringBody = "{ if objectRelation.GetRelation() != \"\" { return objectRelation.GetObject() + \"#\" + objectRelation.GetRelation() } return objectRelation.GetObject() }" ∧
    Gen.TupleStr.splitObjectRelationBody = "{ switch i := strings.LastIndexByte(objectRelation, '#'); i { case -1: return objectRelation, \"\" case len(objectRelation) - 1: return objectRelation[0:i], \"\" default: return objectRelation[0:i], objectRelation[i+1:] } }" ∧
    Gen.TupleStr.toObjectRelationStringBody = "{ return object + \"#\" + relation }" ∧
    Gen.TupleStr.getTypeBody = "{ t, _ := SplitObject(objectID) return t }" ∧
    Gen.TupleStr.getRelationBody = "{ _, relation := SplitObjectRelation(objectRelation) return relation }" ∧
    Gen.TupleStr.objectKeyBody = "{ return BuildObject(obj.GetType(), obj.GetId()) }" ∧
    Gen.TupleStr.toUserPartsBody = "{ userObject, userRelation := SplitObjectRelation(user) userObjectType, userObjectID := SplitObject(userObject) return userObjectType, userObjectID, userRelation }" ∧
    Gen.TupleStr.fromUserPartsBody = "{ size := len(userObjectType) + len(userObjectID) + len(userRelation) + 2 buf := make([]byte, size) w := copy(buf, userObjectType) if w > 0 && size > w { buf[w] = ':' w += 1 } w += copy(buf[w:], userObjectID) if len(userRelation) > 0 { buf[w] = '#' w += 1 w += copy(buf[w:], userRelation) } return unsafe.String(unsafe.SliceData(buf[:w]), w) }" ∧
    Gen.TupleStr.isSelfDefiningBody = "{ userObject, userRelation := SplitObjectRelation(tuple.GetUser()) return tuple.GetRelation() == userRelation && tuple.GetObject() == userObject }" :=
  ⟨rfl, rfl, rfl, rfl, rfl, rfl, rfl, rfl, rfl, rfl, rfl⟩

/-- How the composite predicates are put together. -/
theorem tie_compositions :
    Gen.TupleStr.isValidUserBody = "{ return user == Wildcard || IsValidUserID(user) || IsValidObject(user) || IsValidUserset(user) }" ∧
    Gen.TupleStr.isObjectRelationBody = "{ return IsValidUserset(userset) }" ∧
    Gen.TupleStr.isWildcardBody = "{ return s == Wildcard || IsTypedWildcard(s) }" ∧
    Gen.TupleStr.isTypedWildcardBody = "{ t, id := SplitObject(s) return t != \"\" && id == Wildcard }" ∧
    Gen.TupleStr.typedPublicWildcardBody = "{ return BuildObject(objectType, Wildcard) }" ∧
    Gen.TupleStr.getUserTypeFromUserBody = "{ if IsObjectRelation(user) || IsWildcard(user) { return UserSet } return User }" ∧
    Gen.TupleStr.mustParseTupleStringBody = "{ t, err := ParseTupleString(s) if err != nil { panic(err) } return t }" :=
  ⟨rfl, rfl, rfl, rfl, rfl, rfl, rfl⟩

/-- The `switch chr` tables of the four validity loops: rejected runes are the model's tables, guarded
cases and defaults are the modelled ones, every loop starts with the `unicode.IsControl` guard. -/
theorem tie_validity_tables :
    Gen.TupleStr.objectReject = objectReject ∧
    Gen.TupleStr.relationReject = relationReject ∧
    Gen.TupleStr.userIDReject = userIDReject ∧
    Gen.TupleStr.usersetReject = [32] ∧
    Gen.TupleStr.objectCases = [([35, 32], "return false"), ([58], "if state > 0 || ndx == 0 { return false }; state = 1"), ([], "idLen += state")] ∧
    Gen.TupleStr.relationCases = [([35, 58, 64, 32], "return false"), ([], "count++")] ∧
    Gen.TupleStr.userIDCases = [([35, 58, 32], "return false"), ([], "count++")] ∧
    Gen.TupleStr.usersetCases = [([58], "if state > 0 || ndx == 0 { return false }; state = 1"), ([35], "if state > 1 || idLen == 0 { return false }; state = 2"), ([32], "return false"), ([42], "if state > 0 { return false }"), ([], "switch state { case 1: idLen++ case 2: relLen++ }")] :=
  ⟨rfl, rfl, rfl, rfl, rfl, rfl, rfl, rfl⟩

theorem tie_validity_loops :
    Gen.TupleStr.objectGuard = "if unicode.IsControl(chr) { return false }" ∧
    Gen.TupleStr.relationGuard = "if unicode.IsControl(chr) { return false }" ∧
    Gen.TupleStr.userIDGuard = "if unicode.IsControl(chr) { return false }" ∧
    Gen.TupleStr.usersetGuard = "if unicode.IsControl(chr) { return false }" ∧
    Gen.TupleStr.objectRange = "ndx, chr := range s" ∧ Gen.TupleStr.relationRange = "_, chr := range s" ∧
    Gen.TupleStr.userIDRange = "_, chr := range s" ∧ Gen.TupleStr.usersetRange = "ndx, chr := range s" ∧
    Gen.TupleStr.objectDecl = "var state, idLen int" ∧ Gen.TupleStr.relationDecl = "var count int" ∧
    Gen.TupleStr.userIDDecl = "var count int" ∧ Gen.TupleStr.usersetDecl = "var state, idLen, relLen int" ∧
    Gen.TupleStr.objectReturn = "return idLen > 0" ∧ Gen.TupleStr.relationReturn = "return count > 0" ∧
    Gen.TupleStr.userIDReturn = "return count > 0" ∧ Gen.TupleStr.usersetReturn = "return relLen > 0" :=
  ⟨rfl, rfl, rfl, rfl, rfl, rfl, rfl, rfl, rfl, rfl, rfl, rfl, rfl, rfl, rfl, rfl⟩

/-- What the renderers write, in order. -/
theorem tie_renderers :
    Gen.TupleStr.tupleKeyToStringWrites = ["WriteString(obj)", "WriteByte('#')", "WriteString(rel)", "WriteByte('@')", "WriteString(user)"] ∧
    Gen.TupleStr.tupleStringWrites = Gen.TupleStr.tupleKeyToStringWrites ∧
    Gen.TupleStr.tupleKeyWithConditionToStringWrites = ["WriteString(tk.GetObject())", "WriteByte('#')", "WriteString(tk.GetRelation())", "WriteByte('@')", "WriteString(tk.GetUser())", "WriteString(\" (condition \")", "WriteString(conditionName)", "WriteByte(')')"] ∧
    Gen.TupleStr.userProtoToStringCases = ["*openfgav1.User_Wildcard: copy(buf, t); append(buf, ':', '*')", "*openfgav1.User_Userset: WriteString(t); WriteByte(':'); WriteString(id); WriteByte('#'); WriteString(r)", "*openfgav1.User_Object: WriteString(t); WriteByte(':'); WriteString(id)", "default: "] ∧
    Gen.TupleStr.stringToUserProtoSplits = ["userObj, userRel := SplitObjectRelation(userKey)", "userObjType, userObjID := SplitObject(userObj)"] ∧
    Gen.TupleStr.stringToUserProtoConds = ["userRel == \"\" && userObjID == \"*\" => Wildcard", "userRel == \"\" => Object", "else => Userset"] :=
  ⟨rfl, rfl, rfl, rfl, rfl, rfl⟩

/-- `ParseTupleString`: cut at '#', check the object, cut at '@', check relation, check user. -/
theorem tie_parse :
    Gen.TupleStr.parseTupleStringSteps = ["object, rhs, found := strings.Cut(s, \"#\")", "if !found", "if !IsValidObject(object)", "relation, user, found := strings.Cut(rhs, \"@\")", "if !found", "if !IsValidRelation(relation)", "if !IsValidUser(user)", "return &openfgav1.TupleKey{ Object: object, Relation: relation, User: user, }, nil"] :=
  rfl

/-- the model's separator constants are the ASCII characters the theorems talk about -/
theorem separators : cColon = 58 ∧ cHash = 35 ∧ cAt = 64 ∧ cStar = 42 ∧ cSpace = 32 ∧ wildcard = [42] := by decide

/-! ## 2. Validity predicates = grammar -/

/-- **`IsValidObject s` ⇔ `s` is `type:id`** — one ':', both parts non-empty, no '#', no space, no control
character — for every byte string. -/
theorem valid_object_iff (s : Bytes) : isValidObject s = true ↔ GrammarObject s := by
  rw [isValidObject_eq_grammarB, grammarObjectB_iff]

theorem valid_relation_iff (s : Bytes) : isValidRelation s = true ↔ GrammarRelation s := by
  rw [isValidRelation_eq_grammarB, grammarRelationB_iff]

theorem valid_userID_iff (s : Bytes) : isValidUserID s = true ↔ GrammarUserID s := by
  rw [isValidUserID_eq_grammarB, grammarUserIDB_iff]

/-- **`IsValidUserset s` ⇔ `s` is `type:id#relation`** — one type prefix, exactly one relation. -/
theorem valid_userset_iff (s : Bytes) : isValidUserset s = true ↔ GrammarUserset s := by
  rw [isValidUserset_eq_grammarB, grammarUsersetB_iff]

/-- **`IsValidUser`**: "*", a user id, an object or a userset — at most one type prefix and at most one relation. -/
theorem valid_user_iff (s : Bytes) : isValidUser s = true ↔ GrammarUser s := by
  rw [isValidUser_eq_grammarB, grammarUserB_iff]

theorem isObjectRelation_iff (s : Bytes) : isObjectRelation s = true ↔ GrammarUserset s := valid_userset_iff s

/-- The grammar's "ordinary run" in words: no excluded byte, no ASCII control byte, and no `C2 80..9F`. -/
theorem plain_iff (excl : List UInt8) (s : Bytes) :
    plain excl s = true ↔
      (∀ b ∈ s, b ∉ excl ∧ asciiCtl b = false) ∧ ¬ ∃ p x q, s = p ++ 0xC2 :: x :: q ∧ 0x80 ≤ x ∧ x ≤ 0x9F := by
  induction s with
  | nil => simp [plain]
  | cons b t ih =>
    simp only [plain, Bool.and_eq_true, ih, okHead]
    constructor
    · rintro ⟨⟨⟨h1, h2⟩, h3⟩, h4, h5⟩
      refine ⟨?_, ?_⟩
      · intro c hc; rcases List.mem_cons.mp hc with rfl | hc
        · exact ⟨by simpa using h1, by simpa using h2⟩
        · exact h4 c hc
      · rintro ⟨p, x, q, e, hx1, hx2⟩
        cases p with
        | nil =>
          simp at e; obtain ⟨rfl, rfl⟩ := e
          simp [startsC1, hx1, hx2] at h3
        | cons p0 p' =>
          simp at e; exact h5 ⟨p', x, q, e.2, hx1, hx2⟩
    · rintro ⟨h1, h2⟩
      have hb := h1 b (by simp)
      refine ⟨⟨⟨by simpa using hb.1, by simpa using hb.2⟩, ?_⟩, fun c hc => h1 c (by simp [hc]), ?_⟩
      · rw [Bool.not_eq_true', Bool.eq_false_iff]; intro hh
        rw [Bool.and_eq_true, beq_iff_eq] at hh
        cases t with
        | nil => simp [startsC1] at hh
        | cons x q =>
          apply h2; refine ⟨[], x, q, by simp [hh.1], ?_⟩
          simpa [startsC1] using hh.2
      · rintro ⟨p, x, q, e, hx⟩
        exact h2 ⟨b :: p, x, q, by simp [e], hx⟩

/-- whatever is valid contains no space — for all four predicates at once -/
theorem valid_user_no_space (s : Bytes) (h : isValidUser s = true) : (32 : UInt8) ∉ s := by
  rcases (valid_user_iff s).mp h with rfl | ⟨_, p⟩ | ⟨t, i, rfl, _, _, pt, pi⟩ | ⟨t, i, r, rfl, _, _, _, pt, pi, pr⟩
  · decide
  · exact plain_not_mem _ _ p 32 (by decide)
  · have := plain_not_mem _ _ pt 32 (by decide); have := plain_not_mem _ _ pi 32 (by decide)
    simp [*]
  · have := plain_not_mem _ _ pt 32 (by decide); have := plain_not_mem _ _ pi 32 (by decide)
    have := plain_not_mem _ _ pr 32 (by decide)
    simp [*]

/-! ### which code points are rejected — and which are not -/

/-- TAB, LF, DEL and the C1 control NEL (U+0085 = C2 85) are rejected … -/
example : isValidObject [97, 58, 9] = false ∧ isValidObject [97, 58, 10] = false ∧ isValidObject [97, 58, 127] = false ∧
    isValidObject [97, 58, 0xC2, 0x85] = false ∧ isValidRelation [0xC2, 0x9F] = false := by decide

/-- … but U+00A0 NO-BREAK SPACE (C2 A0), U+3000 IDEOGRAPHIC SPACE (E3 80 80), U+2028 LINE SEPARATOR
(E2 80 A8), a lone continuation byte 0x85, a lone 0xC2 and the over-long `C0 80` are all accepted:
"space" is U+0020 only, invalid UTF-8 decodes to U+FFFD which is an ordinary character. -/
theorem unicode_spaces_and_invalid_utf8_accepted :
    isValidObject [97, 58, 0xC2, 0xA0] = true ∧ isValidObject [97, 58, 0xE3, 0x80, 0x80] = true ∧
    isValidRelation [0xE2, 0x80, 0xA8] = true ∧ isValidUserID [0x85] = true ∧ isValidObject [0xC2, 58, 0xC0, 0x80] = true := by
  decide

/-- '*' is allowed in the type of a userset, '@' in its relation (but not in a tuple's relation). -/
theorem userset_oddities :
    isValidUserset [42, 58, 49, 35, 109] = true ∧ isValidUserset [103, 58, 49, 35, 109, 64, 120] = true ∧
    isValidRelation [109, 64, 120] = false ∧ isValidUserset [103, 58, 42, 35, 109] = false := by decide

/-! ## 3. Round trips -/

/-! ### objects -/

/-- **SplitObject ∘ BuildObject**, exact precondition: the type contains no ':' (ids are unrestricted). -/
theorem object_roundtrip (t i : Bytes) (h : (58 : UInt8) ∉ t) : splitObject (buildObject t i) = (t, i) :=
  splitObject_buildObject t i h

/-- Without the precondition the round trip fails: type "a:b", id "c". -/
theorem object_roundtrip_needs_colon_free_type :
    splitObject (buildObject [97, 58, 98] [99]) ≠ ([97, 58, 98], [99]) := by decide

theorem count_one_split (c : UInt8) (t i t' i' : Bytes) (e : t ++ c :: i = t' ++ c :: i')
    (h1 : c ∉ t') (h2 : c ∉ i') : c ∉ t := by
  intro hm
  have hc := congrArg (List.count c) e
  simp only [List.count_append, List.count_cons_self] at hc
  have z1 : List.count c t' = 0 := List.count_eq_zero.mpr h1
  have z2 : List.count c i' = 0 := List.count_eq_zero.mpr h2
  have p1 : 0 < List.count c t := List.count_pos_iff.mpr hm
  omega

/-- Whenever the rendered object is valid, it splits back into exactly the parts it was built from. -/
theorem object_roundtrip_of_valid (t i : Bytes) (h : isValidObject (buildObject t i) = true) :
    splitObject (buildObject t i) = (t, i) := by
  obtain ⟨t', i', e, _, _, pt, pi⟩ := (valid_object_iff _).mp h
  rw [buildObject_eq] at e
  exact object_roundtrip t i (count_one_split 58 t i t' i' e
    (plain_not_mem _ _ pt 58 (by decide)) (plain_not_mem _ _ pi 58 (by decide)))

/-- **String → parts → string** for every valid object, with non-empty, separator-free parts. -/
theorem object_string_roundtrip (s : Bytes) (h : isValidObject s = true) :
    buildObject (splitObject s).1 (splitObject s).2 = s ∧ (splitObject s).1 ≠ [] ∧ (splitObject s).2 ≠ [] ∧
    (58 : UInt8) ∉ (splitObject s).2 ∧ getType s = (splitObject s).1 := by
  obtain ⟨t, i, rfl, ht, hi, pt, pi⟩ := (valid_object_iff _).mp h
  have h58 := plain_not_mem _ _ pt 58 (by decide)
  rw [splitObject_append t i h58, buildObject_eq]
  exact ⟨rfl, ht, hi, plain_not_mem _ _ pi 58 (by decide), by simp [getType, splitObject_append t i h58]⟩

/-! ### object#relation -/

/-- **SplitObjectRelation ∘ ToObjectRelationString**, exact precondition: no '#' in the relation
(the object is unrestricted, the relation may even be empty). -/
theorem userset_roundtrip (o r : Bytes) (h : (35 : UInt8) ∉ r) :
    splitObjectRelation (toObjectRelationString o r) = (o, r) := splitObjectRelation_toString o r h

theorem userset_roundtrip_needs_hash_free_relation :
    splitObjectRelation (toObjectRelationString [111] [97, 35, 98]) ≠ ([111], [97, 35, 98]) := by decide

theorem userset_roundtrip_of_valid (o r : Bytes) (h : isValidUserset (toObjectRelationString o r) = true) :
    splitObjectRelation (toObjectRelationString o r) = (o, r) := by
  obtain ⟨t', i', r', e, _, _, _, pt, pi, pr⟩ := (valid_userset_iff _).mp h
  rw [toObjectRelationString_eq] at e
  have e' : o ++ 35 :: r = (t' ++ 58 :: i') ++ 35 :: r' := by simp [e]
  have hn : (35 : UInt8) ∉ t' ++ 58 :: i' := by
    have := plain_not_mem _ _ pt 35 (by decide); have := plain_not_mem _ _ pi 35 (by decide)
    simp [*]
  have hr' := plain_not_mem _ _ pr 35 (by decide)
  -- exactly one '#': it is the one that was written
  apply userset_roundtrip
  intro hm
  have hc := congrArg (List.count 35) e'
  simp only [List.count_append, List.count_cons_self] at hc
  have z1 : List.count 35 (t' ++ 58 :: i') = 0 := List.count_eq_zero.mpr hn
  have z2 : List.count 35 r' = 0 := List.count_eq_zero.mpr hr'
  have p1 : 0 < List.count 35 r := List.count_pos_iff.mpr hm
  simp only [List.count_append] at z1
  omega

/-- `GetObjectRelationAsString` (drops the '#' for an empty relation). -/
theorem objectRelation_roundtrip (o r : Bytes) (h : (35 : UInt8) ∉ r) (ho : r = [] → (35 : UInt8) ∉ o) :
    splitObjectRelation (getObjectRelationAsString o r) = (o, r) := splitObjectRelation_getString o r h ho

theorem objectRelation_roundtrip_needs_hash_free_object :
    splitObjectRelation (getObjectRelationAsString [97, 35, 98] []) ≠ ([97, 35, 98], []) := by decide

/-- **String → (object, relation) → string** for every valid userset, both renderers. -/
theorem userset_string_roundtrip (s : Bytes) (h : isValidUserset s = true) :
    toObjectRelationString (splitObjectRelation s).1 (splitObjectRelation s).2 = s ∧
    getObjectRelationAsString (splitObjectRelation s).1 (splitObjectRelation s).2 = s ∧
    isValidObject (splitObjectRelation s).1 = true ∧ getRelation s ≠ [] := by
  obtain ⟨t, i, r, rfl, ht, hi, hr, pt, pi, pr⟩ := (valid_userset_iff _).mp h
  have h35 := plain_not_mem _ _ pr 35 (by decide)
  have e : t ++ 58 :: (i ++ 35 :: r) = (t ++ 58 :: i) ++ 35 :: r := by simp
  have pi' : plain exObject i = true := by
    rw [plain_iff] at pi ⊢
    refine ⟨fun b hb => ⟨?_, (pi.1 b hb).2⟩, pi.2⟩
    intro hm; apply (pi.1 b hb).1
    simp [exObject] at hm; simp [exUsersetTail]; rcases hm with h | h | h <;> simp [h]
  rw [e, splitObjectRelation_append _ r h35]
  refine ⟨by rw [toObjectRelationString_eq], by simp [getObjectRelationAsString, hr, cHash], ?_, ?_⟩
  · exact (valid_object_iff _).mpr ⟨t, i, rfl, ht, hi, pt, pi'⟩
  · show (splitObjectRelation _).2 ≠ []
    rw [splitObjectRelation_append _ r h35]; exact hr

/-! ### structured users ↔ strings -/

theorem stringToUserProto_eq (s o rel t i : Bytes) (h1 : splitObjectRelation s = (o, rel)) (h2 : splitObject o = (t, i)) :
    stringToUserProto s =
      if rel = [] ∧ i = [42] then .wildcard t else if rel = [] then .object t i else .userset t i rel := by
  unfold stringToUserProto
  rw [h1]; dsimp only; rw [h2]; rfl

/-- **Typed wildcard**: `StringToUserProto (UserProtoToString (Wildcard t)) = Wildcard t`, exact
precondition: no ':' and no '#' in the type. -/
theorem user_wildcard_roundtrip (t : Bytes) (h1 : (58 : UInt8) ∉ t) (h2 : (35 : UInt8) ∉ t) :
    stringToUserProto (userProtoToString (.wildcard t)) = .wildcard t := by
  have e : userProtoToString (.wildcard t) = t ++ 58 :: [42] := by simp [userProtoToString, cColon, cStar]
  have hn : (35 : UInt8) ∉ t ++ 58 :: [42] := by simp [h2]
  rw [e, stringToUserProto_eq _ _ _ t [42] (splitObjectRelation_no_hash _ hn) (splitObject_append t [42] h1)]
  simp

/-- **Object**: exact precondition: no ':' '#' in the type, no '#' in the id, and the id is not "*". -/
theorem user_object_roundtrip (t i : Bytes) (h1 : (58 : UInt8) ∉ t) (h2 : (35 : UInt8) ∉ t) (h3 : (35 : UInt8) ∉ i)
    (h4 : i ≠ [42]) : stringToUserProto (userProtoToString (.object t i)) = .object t i := by
  have e : userProtoToString (.object t i) = t ++ 58 :: i := by simp [userProtoToString, cColon]
  have hn : (35 : UInt8) ∉ t ++ 58 :: i := by simp [h2, h3]
  rw [e, stringToUserProto_eq _ _ _ t i (splitObjectRelation_no_hash _ hn) (splitObject_append t i h1)]
  simp [h4]

/-- The string form cannot distinguish an object whose id is "*" from the typed wildcard:
`Object{user, *}` renders as "user:*" and comes back as `Wildcard{user}`. -/
theorem user_object_star_becomes_wildcard :
    stringToUserProto (userProtoToString (.object [117] [42])) = .wildcard [117] := by decide

/-- **Userset**: exact precondition: no ':' in the type, a non-empty relation without '#'
(type and id may even contain '#'). -/
theorem user_userset_roundtrip (t i r : Bytes) (h1 : (58 : UInt8) ∉ t) (h2 : r ≠ []) (h3 : (35 : UInt8) ∉ r) :
    stringToUserProto (userProtoToString (.userset t i r)) = .userset t i r := by
  have e : userProtoToString (.userset t i r) = (t ++ 58 :: i) ++ 35 :: r := by simp [userProtoToString, cColon, cHash]
  rw [e, stringToUserProto_eq _ _ _ t i (splitObjectRelation_append _ r h3) (splitObject_append t i h1)]
  simp [h2]

theorem user_userset_empty_relation_becomes_object :
    stringToUserProto (userProtoToString (.userset [103] [49] [])) = .object [103] [49] := by decide

/-- A structured user is *valid* when its parts are what the grammar allows. -/
def ValidUser : User → Prop
  | .wildcard t => t ≠ [] ∧ plain exObject t = true
  | .object t i => t ≠ [] ∧ i ≠ [] ∧ plain exObject t = true ∧ plain exObject i = true ∧ i ≠ [42]
  | .userset t i r => t ≠ [] ∧ i ≠ [] ∧ r ≠ [] ∧ plain exObject t = true ∧ plain exUsersetTail i = true ∧
      plain exUsersetTail r = true

/-- **Structured → string → structured is the identity on valid users**, and the string is a valid user. -/
theorem user_proto_roundtrip (u : User) (h : ValidUser u) :
    stringToUserProto (userProtoToString u) = u ∧ isValidUser (userProtoToString u) = true := by
  cases u with
  | wildcard t =>
    obtain ⟨ht, pt⟩ := h
    refine ⟨user_wildcard_roundtrip t (plain_not_mem _ _ pt 58 (by decide)) (plain_not_mem _ _ pt 35 (by decide)), ?_⟩
    rw [valid_user_iff]
    refine Or.inr (Or.inr (Or.inl ⟨t, [42], by simp [userProtoToString, cColon, cStar], ht, by simp, pt, by decide⟩))
  | object t i =>
    obtain ⟨ht, hi, pt, pi, hs⟩ := h
    refine ⟨user_object_roundtrip t i (plain_not_mem _ _ pt 58 (by decide)) (plain_not_mem _ _ pt 35 (by decide))
      (plain_not_mem _ _ pi 35 (by decide)) hs, ?_⟩
    rw [valid_user_iff]
    exact Or.inr (Or.inr (Or.inl ⟨t, i, by simp [userProtoToString, cColon], ht, hi, pt, pi⟩))
  | userset t i r =>
    obtain ⟨ht, hi, hr, pt, pi, pr⟩ := h
    refine ⟨user_userset_roundtrip t i r (plain_not_mem _ _ pt 58 (by decide)) hr (plain_not_mem _ _ pr 35 (by decide)), ?_⟩
    rw [valid_user_iff]
    exact Or.inr (Or.inr (Or.inr ⟨t, i, r, by simp [userProtoToString, cColon, cHash], ht, hi, hr, pt, pi, pr⟩))

/-- **String → structured → string is the identity on every valid *typed* user** (object, typed
wildcard or userset — what `ValidateUser` accepts for the supported schema versions), and the
structured value is valid. -/
theorem user_string_roundtrip (s : Bytes) (h : isValidObject s = true ∨ isValidUserset s = true) :
    userProtoToString (stringToUserProto s) = s ∧ ValidUser (stringToUserProto s) := by
  rcases h with h | h
  · obtain ⟨t, i, rfl, ht, hi, pt, pi⟩ := (valid_object_iff _).mp h
    have hn : (35 : UInt8) ∉ t ++ 58 :: i := by
      have := plain_not_mem _ _ pt 35 (by decide); have := plain_not_mem _ _ pi 35 (by decide); simp [*]
    rw [stringToUserProto_eq _ _ _ t i (splitObjectRelation_no_hash _ hn)
      (splitObject_append t i (plain_not_mem _ _ pt 58 (by decide)))]
    by_cases hs : i = [42]
    · subst hs; simp [userProtoToString, cColon, cStar, ValidUser, ht, pt]
    · simp [hs, userProtoToString, cColon, ValidUser, ht, hi, pt, pi]
  · obtain ⟨t, i, r, rfl, ht, hi, hr, pt, pi, pr⟩ := (valid_userset_iff _).mp h
    have e : t ++ 58 :: (i ++ 35 :: r) = (t ++ 58 :: i) ++ 35 :: r := by simp
    rw [e, stringToUserProto_eq _ _ _ t i (splitObjectRelation_append _ r (plain_not_mem _ _ pr 35 (by decide)))
      (splitObject_append t i (plain_not_mem _ _ pt 58 (by decide)))]
    simp [hr, userProtoToString, cColon, cHash, ValidUser, ht, hi, pt, pi, pr]

/-- Untyped users (`IsValidUser` still accepts them for old models) do NOT survive the structured form:
"anne" ↦ Object{"", "anne"} ↦ ":anne", and "*" ↦ Wildcard{""} ↦ ":*". -/
theorem untyped_user_not_lossless :
    isValidUser [97, 110, 110, 101] = true ∧
    userProtoToString (stringToUserProto [97, 110, 110, 101]) = [58, 97, 110, 110, 101] ∧
    isValidUser [42] = true ∧ userProtoToString (stringToUserProto [42]) = [58, 42] := by decide

/-! ### ToUserParts / FromUserParts -/

theorem fromUserParts_eq (t i r : Bytes) :
    fromUserParts t i r = (if t ≠ [] then t ++ [58] else []) ++ i ++ (if r ≠ [] then 35 :: r else []) := by
  unfold fromUserParts
  cases t with
  | nil => cases r <;> simp [cHash]
  | cons a t' =>
    have hsz : ∀ n m : Nat, t'.length < t'.length + 1 + n + m + 1 := by intro n m; omega
    cases r with
    | nil => simp [cColon]; rw [if_pos (by omega)]; simp
    | cons b r' => simp [cColon, cHash]; rw [if_pos (by omega)]; simp

theorem toUserParts_eq (s o rel t i : Bytes) (h1 : splitObjectRelation s = (o, rel)) (h2 : splitObject o = (t, i)) :
    toUserParts s = (t, i, rel) := by
  unfold toUserParts; rw [h1]; dsimp only; rw [h2]

/-- **ToUserParts ∘ FromUserParts**, exact precondition. -/
theorem user_parts_roundtrip (t i r : Bytes) (h1 : (58 : UInt8) ∉ t) (h2 : (35 : UInt8) ∉ r)
    (h3 : r = [] → (35 : UInt8) ∉ t ∧ (35 : UInt8) ∉ i) (h4 : t = [] → (58 : UInt8) ∉ i) :
    toUserParts (fromUserParts t i r) = (t, i, r) := by
  rw [fromUserParts_eq]
  have hobj : splitObject ((if t ≠ [] then t ++ [58] else []) ++ i) = (t, i) := by
    by_cases ht : t = []
    · subst ht; simp [splitObject_no_colon i (h4 rfl)]
    · simp only [ht, ne_eq, not_false_eq_true, if_true, List.append_assoc, List.singleton_append]
      exact splitObject_append t i h1
  by_cases hr : r = []
  · subst hr
    have hn : (35 : UInt8) ∉ (if t ≠ [] then t ++ [58] else []) ++ i := by
      obtain ⟨a, b⟩ := h3 rfl
      by_cases ht : t = [] <;> simp [ht, a, b]
    simp only [ne_eq, not_true_eq_false, if_false, List.append_nil]
    exact toUserParts_eq _ _ _ t i (splitObjectRelation_no_hash _ hn) hobj
  · simp only [hr, ne_eq, not_false_eq_true, if_true]
    exact toUserParts_eq _ _ _ t i (splitObjectRelation_append _ r h2) hobj

theorem user_parts_roundtrip_needs_preconditions :
    toUserParts (fromUserParts [] [120, 58, 121] []) ≠ ([], [120, 58, 121], []) ∧
    toUserParts (fromUserParts [97] [98, 35, 99] []) ≠ ([97], [98, 35, 99], []) := by decide

/-- **FromUserParts ∘ ToUserParts is the identity on every valid user**, typed or not. -/
theorem user_parts_string_roundtrip (s : Bytes) (h : isValidUser s = true) :
    (fromUserParts (toUserParts s).1 (toUserParts s).2.1 (toUserParts s).2.2) = s := by
  rcases (valid_user_iff s).mp h with rfl | ⟨hne, p⟩ | ⟨t, i, rfl, ht, hi, pt, pi⟩ | ⟨t, i, r, rfl, ht, hi, hr, pt, pi, pr⟩
  · decide
  · have h35 := plain_not_mem _ _ p 35 (by decide)
    have h58 := plain_not_mem _ _ p 58 (by decide)
    rw [toUserParts_eq s s [] [] s (splitObjectRelation_no_hash s h35) (splitObject_no_colon s h58), fromUserParts_eq]
    simp
  · have hn : (35 : UInt8) ∉ t ++ 58 :: i := by
      have := plain_not_mem _ _ pt 35 (by decide); have := plain_not_mem _ _ pi 35 (by decide); simp [*]
    rw [toUserParts_eq _ _ _ t i (splitObjectRelation_no_hash _ hn)
      (splitObject_append t i (plain_not_mem _ _ pt 58 (by decide))), fromUserParts_eq]
    simp [ht]
  · have e : t ++ 58 :: (i ++ 35 :: r) = (t ++ 58 :: i) ++ 35 :: r := by simp
    rw [e, toUserParts_eq _ _ _ t i (splitObjectRelation_append _ r (plain_not_mem _ _ pr 35 (by decide)))
      (splitObject_append t i (plain_not_mem _ _ pt 58 (by decide))), fromUserParts_eq]
    simp [ht, hr]

/-! ### tuple keys -/

theorem tupleKeyToString_eq (tk : TK) : tupleKeyToString tk = tk.object ++ 35 :: (tk.relation ++ 64 :: tk.user) := by
  simp [tupleKeyToString, cHash, cAt]

/-- **`ParseTupleString s = tk` exactly when `s` is `object#relation@user` with three valid parts**:
soundness of the parser and the round trip in one statement. -/
theorem parse_ok_iff (s : Bytes) (tk : TK) :
    parseTupleString s = .ok tk ↔
      s = tupleKeyToString tk ∧ isValidObject tk.object = true ∧ isValidRelation tk.relation = true ∧
        isValidUser tk.user = true := by
  constructor
  · intro h
    unfold parseTupleString at h
    cases hc : cut cHash s with
    | none => rw [hc] at h; simp at h
    | some orr =>
      obtain ⟨o, rhs⟩ := orr
      rw [hc] at h; dsimp only at h
      by_cases ho : isValidObject o = true
      · simp only [ho, Bool.not_true, Bool.false_eq_true, if_false] at h
        cases hc2 : cut cAt rhs with
        | none => rw [hc2] at h; simp at h
        | some ru =>
          obtain ⟨r, u⟩ := ru
          rw [hc2] at h; dsimp only at h
          by_cases hr : isValidRelation r = true
          · simp only [hr, Bool.not_true, Bool.false_eq_true, if_false] at h
            by_cases hu : isValidUser u = true
            · simp only [hu, Bool.not_true, Bool.false_eq_true, if_false] at h
              injection h with h; subst h
              obtain ⟨e1, _⟩ := cut_some _ _ _ _ hc
              obtain ⟨e2, _⟩ := cut_some _ _ _ _ hc2
              refine ⟨?_, ho, hr, hu⟩
              rw [tupleKeyToString_eq, e1, e2]; rfl
            · simp [hu] at h
          · simp [hr] at h
      · simp [ho] at h
  · rintro ⟨rfl, ho, hr, hu⟩
    obtain ⟨o, r, u⟩ := tk
    simp only at ho hr hu
    obtain ⟨t, i, rfl, _, _, pt, pi⟩ := (valid_object_iff _).mp ho
    have h35 : (35 : UInt8) ∉ t ++ 58 :: i := by
      have := plain_not_mem _ _ pt 35 (by decide); have := plain_not_mem _ _ pi 35 (by decide); simp [*]
    have h64 : (64 : UInt8) ∉ r := plain_not_mem _ _ ((valid_relation_iff _).mp hr).2 64 (by decide)
    rw [tupleKeyToString_eq]
    unfold parseTupleString
    rw [show cHash = (35 : UInt8) from rfl, cut_append 35 _ _ h35]
    dsimp only
    rw [show cAt = (64 : UInt8) from rfl, cut_append 64 _ _ h64]
    simp [ho, hr, hu]

/-- **Tuple round trip**: a tuple key with a valid object, relation and user renders to a string that
parses back to the same tuple key — and this is the only way to get it back. -/
theorem tuple_roundtrip (tk : TK) :
    parseTupleString (tupleKeyToString tk) = .ok tk ↔
      (isValidObject tk.object = true ∧ isValidRelation tk.relation = true ∧ isValidUser tk.user = true) := by
  rw [parse_ok_iff]; simp

/-- The parser never misreads: an accepted string is literally the rendering of the result. -/
theorem parse_sound (s : Bytes) (tk : TK) (h : parseTupleString s = .ok tk) : tupleKeyToString tk = s :=
  ((parse_ok_iff s tk).mp h).1.symm

/-- a '#' in the object or an '@' in the relation breaks it (such parts are not valid) -/
theorem tuple_roundtrip_needs_valid_parts :
    parseTupleString (tupleKeyToString ⟨[100, 58, 49, 35, 120], [114], [117, 58, 49]⟩) ≠ .ok ⟨[100, 58, 49, 35, 120], [114], [117, 58, 49]⟩ ∧
    parseTupleString (tupleKeyToString ⟨[100, 58, 49], [114, 64, 120], [117, 58, 49]⟩) ≠ .ok ⟨[100, 58, 49], [114, 64, 120], [117, 58, 49]⟩ := by
  constructor
  · intro h; have := (tuple_roundtrip _).mp h; revert this; decide
  · intro h; have := (tuple_roundtrip _).mp h; revert this; decide

/-- The display form with a condition has no parser: for a valid tuple key it is always rejected by
`ParseTupleString` (the user part then contains a space). -/
theorem tuple_with_condition_not_parseable (tk : TK) (name : Bytes)
    (ho : isValidObject tk.object = true) (hr : isValidRelation tk.relation = true) :
    parseTupleString (tupleKeyWithConditionToString tk (some name)) = .error .badUser := by
  obtain ⟨o, r, u⟩ := tk
  simp only at ho hr
  obtain ⟨t, i, rfl, _, _, pt, pi⟩ := (valid_object_iff _).mp ho
  have h35 : (35 : UInt8) ∉ t ++ 58 :: i := by
    have := plain_not_mem _ _ pt 35 (by decide); have := plain_not_mem _ _ pi 35 (by decide); simp [*]
  have h64 : (64 : UInt8) ∉ r := plain_not_mem _ _ ((valid_relation_iff _).mp hr).2 64 (by decide)
  have e : tupleKeyWithConditionToString ⟨t ++ 58 :: i, r, u⟩ (some name) =
      (t ++ 58 :: i) ++ 35 :: (r ++ 64 :: (u ++ condPrefix ++ name ++ [41])) := by
    simp [tupleKeyWithConditionToString, tupleKeyToString, cHash, cAt, cRParen]
  have hbad : isValidUser (u ++ (condPrefix ++ (name ++ [41]))) = false := by
    rw [Bool.eq_false_iff]; intro hv
    exact valid_user_no_space _ hv (by simp [condPrefix])
  rw [e]
  unfold parseTupleString
  rw [show cHash = (35 : UInt8) from rfl, cut_append 35 _ _ h35]
  dsimp only
  rw [show cAt = (64 : UInt8) from rfl, cut_append 64 _ _ h64]
  simp [ho, hr, hbad]

/-! ### typed wildcards -/

theorem typed_wildcard_roundtrip (t : Bytes) (h1 : t ≠ []) (h2 : (58 : UInt8) ∉ t) :
    isTypedWildcard (typedPublicWildcard t) = true ∧ isWildcard (typedPublicWildcard t) = true ∧
    getType (typedPublicWildcard t) = t := by
  have e : typedPublicWildcard t = t ++ 58 :: [42] := by simp [typedPublicWildcard, buildObject_eq, wildcard, cStar]
  simp [e, isTypedWildcard, isWildcard, getType, splitObject_append t [42] h2, h1, wildcard, cStar]

/-- every typed wildcard is `TypedPublicWildcard` of its type -/
theorem typed_wildcard_string_roundtrip (s : Bytes) (h : isTypedWildcard s = true) :
    typedPublicWildcard (getType s) = s := by
  unfold isTypedWildcard at h
  rcases first_split 58 s with hn | ⟨l, r, rfl, hl⟩
  · rw [splitObject_no_colon s hn] at h; simp at h
  · rw [splitObject_append l r hl] at h
    simp only [Bool.and_eq_true, beq_iff_eq] at h
    obtain ⟨_, rfl⟩ := h
    have hs := splitObject_append l wildcard hl
    simp [typedPublicWildcard, buildObject_eq, getType, hs]

/-- a valid typed wildcard is a valid object, converts to `User_Wildcard` and back -/
theorem typed_wildcard_valid (t : Bytes) (h1 : t ≠ []) (h2 : plain exObject t = true) :
    isValidObject (typedPublicWildcard t) = true ∧
    stringToUserProto (typedPublicWildcard t) = .wildcard t ∧
    userProtoToString (.wildcard t) = typedPublicWildcard t := by
  have e : typedPublicWildcard t = t ++ 58 :: [42] := by simp [typedPublicWildcard, buildObject_eq, wildcard, cStar]
  have e2 : userProtoToString (.wildcard t) = t ++ 58 :: [42] := by simp [userProtoToString, cColon, cStar]
  refine ⟨?_, ?_, by rw [e, e2]⟩
  · rw [e, valid_object_iff]; exact ⟨t, [42], rfl, h1, by simp, h2, by decide⟩
  · rw [e, ← e2]
    exact user_wildcard_roundtrip t (plain_not_mem _ _ h2 58 (by decide)) (plain_not_mem _ _ h2 35 (by decide))

/-! ## Towards C18: what the shape checks of internal/validation guarantee -/

/-- `ValidateObject` accepts only grammatical objects that are not typed wildcards and whose type is known. -/
theorem validateObject_ok (ts : TypeSys) (o : Bytes) (h : validateObject ts o = none) :
    GrammarObject o ∧ (splitObject o).2 ≠ [42] ∧ ts.hasType (getType o) = true := by
  unfold validateObject at h
  by_cases hv : isValidObject o = true
  · simp only [hv, Bool.not_true, Bool.false_eq_true, if_false] at h
    by_cases hw : (splitObject o).2 = wildcard
    · simp [hw] at h
    · simp only [hw, if_false] at h
      by_cases ht : ts.hasType (splitObject o).1 = true
      · exact ⟨(valid_object_iff o).mp hv, hw, ht⟩
      · simp [ht] at h
  · simp [hv] at h

/-- Under a supported schema version `ValidateUser` accepts only typed users (objects, typed
wildcards, usersets) — exactly the users for which `user_string_roundtrip` holds. -/
theorem validateUser_ok_typed (ts : TypeSys) (u : Bytes) (hs : ts.schemaSupported = true)
    (h : validateUser ts u = none) : isValidObject u = true ∨ isValidUserset u = true := by
  unfold validateUser at h
  by_cases hv : isValidUser u = true
  · simp only [hv, Bool.not_true, Bool.false_eq_true, if_false, hs, if_true] at h
    by_cases ho : isValidObject u = true
    · exact Or.inl ho
    · by_cases hu : isValidUserset u = true
      · exact Or.inr hu
      · simp [ho, hu, isObjectRelation] at h
  · simp [hv] at h

/-- A tuple key accepted by `ValidateUserObjectRelation` renders to a string that parses back to it. -/
theorem validated_tuple_roundtrips (ts : TypeSys) (tk : TK) (h : validateUserObjectRelation ts tk = none) :
    parseTupleString (tupleKeyToString tk) = .ok tk := by
  unfold validateUserObjectRelation at h
  cases hu : validateUser ts tk.user with
  | some e => rw [hu] at h; simp at h
  | none =>
    rw [hu] at h; dsimp only at h
    cases ho : validateObject ts tk.object with
    | some e => rw [ho] at h; simp at h
    | none =>
      rw [ho] at h; dsimp only at h
      rw [tuple_roundtrip]
      refine ⟨(valid_object_iff _).mpr (validateObject_ok ts _ ho).1, ?_, ?_⟩
      · unfold validateRelation at h
        by_cases hr : isValidRelation tk.relation = true
        · exact hr
        · simp [hr] at h
      · unfold validateUser at hu
        by_cases hv : isValidUser tk.user = true
        · exact hv
        · simp [hv] at hu

/-! ## Non-vacuity -/

-- "document:1" is a valid object; "group:eng#member" a valid userset; "viewer" a valid relation
example : isValidObject [100, 111, 99, 58, 49] = true := by decide
example : GrammarObject [100, 111, 99, 58, 49] := (valid_object_iff _).mp (by decide)
example : isValidUserset [103, 58, 101, 35, 109] = true ∧ isValidRelation [118, 105, 101, 119] = true := by decide
example : ValidUser (.userset [103] [101] [109]) := by simp [ValidUser]; decide
example : ValidUser (.wildcard [117, 115, 101, 114]) := by simp [ValidUser]; decide
-- a full tuple: "doc:1#viewer@group:e#m"
example : parseTupleString (tupleKeyToString ⟨[100, 111, 99, 58, 49], [118], [103, 58, 101, 35, 109]⟩)
    = .ok ⟨[100, 111, 99, 58, 49], [118], [103, 58, 101, 35, 109]⟩ := (tuple_roundtrip _).mpr (by decide)
example : splitObject (buildObject [100] [49, 58, 50]) = ([100], [49, 58, 50]) := object_roundtrip _ _ (by decide)
-- the decoder model on a mixed string: 'a', U+00E9, lone 0x80, U+1F600
example : runes [97, 0xC3, 0xA9, 0x80, 0xF0, 0x9F, 0x98, 0x80] = [(0, 97), (1, 0xE9), (3, 0xFFFD), (4, 0x1F600)] := by decide

end OpenFGAVerif.C29
