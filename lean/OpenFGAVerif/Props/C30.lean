/-
C30 — Expand mirrors the rewrite and the directly assigned users.

Model: `Model.Expand` (pkg/server/commands/expand.go) over `Model.CombinedReader`.

Proved for every model, rewrite, object, relation, stored tuple list and contextual tuple list (any
length, any order the contextual tuples are put in by `NewCombinedTupleReader`):
  * `expand_conforms` — the tree built by `resolveUserset` satisfies the executable statement of the
    property `conforms` (the very check the driver runs on the real tree);
  * `expand_shape`    — internal nodes and leaf kinds mirror the rewrite, children in rewrite order, every
    node named `object#relation` (structural induction on the rewrite);
  * `expand_leaves`   — a direct leaf is strictly ascending (sorted, duplicate free) and lists exactly the
    users of the valid (ValidateTupleForRead, conditions NOT evaluated) stored ∪ contextual tuples on
    `object#relation`; `leaves_unique` — that determines the list; `expand_leaves_ctx_dup` — a contextual
    tuple whose user already occurs on a valid stored tuple changes nothing, and Expand does not reject it;
  * `expand_computed`, `expand_ttu` — computed leaves name `object#computed`, tuple-to-userset leaves name
    `object#tupleset` and list the usersets of the valid tupleset tuples, first occurrences in read order;
  * `execute_ok_conforms` — the same for `Execute` as a whole; `execute_err_*` — when it fails.
-/
import OpenFGAVerif.Model.Expand
import OpenFGAVerif.Gen.Expand
import OpenFGAVerif.Gen.ExpandScope

namespace OpenFGAVerif.C30
open OpenFGAVerif.Vocab OpenFGAVerif.CheckV1 OpenFGAVerif.Model OpenFGAVerif.Model.Expand

/-! ## sorted sets of strings -/

theorem mem_insertU (u v : String) (l : List String) : v ∈ insertU u l ↔ v = u ∨ v ∈ l := by
  induction l with
  | nil => simp [insertU]
  | cons x xs ih =>
    unfold insertU
    split
    · simp
    · split
      · rename_i h; subst h; simp
      · simp [ih]; grind

theorem insertU_sorted (u : String) (l : List String) (h : l.Pairwise (· < ·)) :
    (insertU u l).Pairwise (· < ·) := by
  induction l with
  | nil => simp [insertU]
  | cons x xs ih =>
    unfold insertU
    rw [List.pairwise_cons] at h
    split
    · rename_i hux
      refine List.pairwise_cons.mpr ⟨?_, List.pairwise_cons.mpr h⟩
      intro a ha
      rcases List.mem_cons.mp ha with rfl | ha
      · exact hux
      · exact String.lt_trans hux (h.1 a ha)
    · split
      · exact List.pairwise_cons.mpr h
      · rename_i h1 h2
        refine List.pairwise_cons.mpr ⟨?_, ih h.2⟩
        intro a ha
        rcases (mem_insertU u a xs).mp ha with rfl | ha
        · have hle : x ≤ a := String.not_lt.mp h1
          rcases String.le_total a x with h3 | _
          · exact absurd (String.le_antisymm h3 hle) h2
          · exact Decidable.byContradiction fun hn => h2 (String.le_antisymm (String.not_lt.mp hn) hle)
        · exact h.1 a ha

theorem mem_sortedSet (v : String) (l : List String) : v ∈ sortedSet l ↔ v ∈ l := by
  induction l with
  | nil => simp [sortedSet]
  | cons x xs ih =>
    have : sortedSet (x :: xs) = insertU x (sortedSet xs) := rfl
    rw [this, mem_insertU, ih]; simp

theorem sortedSet_sorted (l : List String) : (sortedSet l).Pairwise (· < ·) := by
  induction l with
  | nil => simp [sortedSet]
  | cons x xs ih => exact insertU_sorted x _ ih

theorem strictAsc_iff (l : List String) : strictAsc l = true ↔ l.Pairwise (· < ·) := by
  induction l with
  | nil => simp [strictAsc]
  | cons a rest ih =>
    cases rest with
    | nil => simp [strictAsc]
    | cons b rest =>
      simp only [strictAsc, Bool.and_eq_true, decide_eq_true_eq, ih]
      constructor
      · rintro ⟨hab, hp⟩
        refine List.pairwise_cons.mpr ⟨?_, hp⟩
        intro c hc
        rcases List.mem_cons.mp hc with rfl | hc
        · exact hab
        · exact String.lt_trans hab ((List.pairwise_cons.mp hp).1 c hc)
      · intro hp
        have := List.pairwise_cons.mp hp
        exact ⟨this.1 b (by simp), this.2⟩

/-- a strictly ascending list is determined by its set of members -/
theorem leaves_unique : ∀ (a b : List String), a.Pairwise (· < ·) → b.Pairwise (· < ·) →
    (∀ x, x ∈ a ↔ x ∈ b) → a = b
  | [], [], _, _, _ => rfl
  | [], y :: ys, _, _, h => absurd ((h y).mpr (by simp)) (by simp)
  | x :: xs, [], _, _, h => absurd ((h x).mp (by simp)) (by simp)
  | x :: xs, y :: ys, ha, hb, h => by
    have ha' := List.pairwise_cons.mp ha
    have hb' := List.pairwise_cons.mp hb
    have hxy : x = y := by
      rcases List.mem_cons.mp ((h x).mp (by simp)) with e | hx
      · exact e
      · rcases List.mem_cons.mp ((h y).mpr (by simp)) with e | hy
        · exact e.symm
        · exact absurd (String.lt_trans (hb'.1 x hx) (ha'.1 y hy)) (String.lt_irrefl y)
    subst hxy
    congr 1
    apply leaves_unique xs ys ha'.2 hb'.2
    intro z
    constructor
    · intro hz
      rcases List.mem_cons.mp ((h z).mp (List.mem_cons_of_mem _ hz)) with e | hz'
      · subst e; exact absurd (ha'.1 z hz) (String.lt_irrefl z)
      · exact hz'
    · intro hz
      rcases List.mem_cons.mp ((h z).mpr (List.mem_cons_of_mem _ hz)) with e | hz'
      · subst e; exact absurd (hb'.1 z hz) (String.lt_irrefl z)
      · exact hz'

theorem sameSet_iff (xs ys : List String) : sameSet xs ys = true ↔ ∀ x, x ∈ xs ↔ x ∈ ys := by
  simp only [sameSet, Bool.and_eq_true, List.all_eq_true, List.contains_iff_mem]
  constructor
  · rintro ⟨h1, h2⟩ x; exact ⟨h1 x, h2 x⟩
  · intro h; exact ⟨fun x => (h x).mp, fun x => (h x).mpr⟩

/-! ## first occurrences in read order -/

theorem mem_dedupKeep (x : String) : ∀ (l seen : List String), x ∈ dedupKeep seen l ↔ x ∈ l ∧ x ∉ seen
  | [], seen => by simp [dedupKeep]
  | y :: ys, seen => by
    unfold dedupKeep
    by_cases hy : seen.contains y = true
    · rw [if_pos hy, mem_dedupKeep x ys seen, List.mem_cons]
      have hy' : y ∈ seen := List.contains_iff_mem.mp hy
      constructor
      · rintro ⟨h1, h2⟩; exact ⟨Or.inr h1, h2⟩
      · rintro ⟨h1 | h1, h2⟩
        · subst h1; exact absurd hy' h2
        · exact ⟨h1, h2⟩
    · rw [if_neg hy, List.mem_cons, mem_dedupKeep x ys (y :: seen), List.mem_cons, List.mem_cons]
      have hy' : y ∉ seen := fun h => hy (List.contains_iff_mem.mpr h)
      constructor
      · rintro (h | ⟨h1, h2⟩)
        · subst h; exact ⟨Or.inl rfl, hy'⟩
        · exact ⟨Or.inr h1, fun h => h2 (Or.inr h)⟩
      · rintro ⟨h1 | h1, h2⟩
        · exact Or.inl h1
        · by_cases e : x = y
          · exact Or.inl e
          · refine Or.inr ⟨h1, ?_⟩
            rintro (h | h)
            · exact e h
            · exact h2 h

theorem nodupB_iff (l : List String) : nodupB l = true ↔ l.Nodup := by
  induction l with
  | nil => simp [nodupB]
  | cons a rest ih => simp [nodupB, ih, List.nodup_cons]

theorem dedupKeep_nodup : ∀ (l seen : List String), (dedupKeep seen l).Nodup
  | [], _ => by simp [dedupKeep]
  | y :: ys, seen => by
    unfold dedupKeep
    split
    · exact dedupKeep_nodup ys seen
    · refine List.nodup_cons.mpr ⟨?_, dedupKeep_nodup ys (y :: seen)⟩
      intro h
      exact ((mem_dedupKeep y ys (y :: seen)).mp h).2 (by simp)

/-- the order is the read order: first occurrences are kept where they are -/
theorem dedupKeep_sublist : ∀ (l seen : List String), (dedupKeep seen l).Sublist l
  | [], _ => by simp [dedupKeep]
  | y :: ys, seen => by
    unfold dedupKeep
    split
    · exact (dedupKeep_sublist ys seen).cons y
    · exact (dedupKeep_sublist ys (y :: seen)).cons_cons y

/-! ## what the combined read returns -/

/-- any order of the contextual tuples (`ctxO`) has the same members -/
theorem mem_validRead (m : Model) (ctx ctxO stored : List Tuple) (hperm : ∀ t, t ∈ ctxO ↔ t ∈ ctx)
    (o r : String) (ho : o ≠ "") (hr : r ≠ "") (t : Tuple) :
    t ∈ validRead m ctxO stored o r ↔ t ∈ validOn m (ctx ++ stored) o r := by
  simp only [validRead, validOn, CombinedReader.read, CombinedReader.filterTuples, CombinedReader.storeRead,
    CombinedReader.storeMatch, List.mem_filter, List.mem_append, hperm, ho, hr, decide_false, Bool.false_or,
    List.isEmpty_nil, Bool.true_or, Bool.and_true, decide_true, Bool.and_eq_true, decide_eq_true_eq]
  constructor
  · rintro ⟨(⟨h1, h2, h3⟩ | ⟨h1, h2, h3⟩), hv⟩
    · exact ⟨Or.inl h1, ⟨h2, h3⟩, hv⟩
    · exact ⟨Or.inr h1, ⟨h2, h3⟩, hv⟩
  · rintro ⟨(h1 | h1), ⟨h2, h3⟩, hv⟩
    · exact ⟨Or.inl ⟨h1, h2, h3⟩, hv⟩
    · exact ⟨Or.inr ⟨h1, h2, h3⟩, hv⟩

theorem mem_orderCtx_insert (t x : Tuple) (l : List Tuple) : x ∈ CombinedReader.insertByObj t l ↔ x = t ∨ x ∈ l := by
  induction l with
  | nil => simp [CombinedReader.insertByObj]
  | cons y ys ih =>
    unfold CombinedReader.insertByObj
    split
    · simp
    · simp [ih]; grind

theorem mem_orderCtx (ts : List Tuple) (x : Tuple) : x ∈ CombinedReader.orderCtx ts ↔ x ∈ ts := by
  unfold CombinedReader.orderCtx
  have key : ∀ (l acc : List Tuple), x ∈ l.foldl (fun acc t => CombinedReader.insertByObj t acc) acc ↔ x ∈ l ∨ x ∈ acc := by
    intro l
    induction l with
    | nil => simp
    | cons y ys ih =>
      intro acc
      simp only [List.foldl_cons, ih, mem_orderCtx_insert, List.mem_cons]
      grind
  simpa using key ts []

/-! ## the leaves -/

/-- **Direct leaves**: strictly ascending — hence sorted and duplicate free — and exactly the users of
the valid stored ∪ contextual tuples on `o#r`. -/
theorem expand_leaves (m : Model) (ctx ctxO stored : List Tuple) (hperm : ∀ t, t ∈ ctxO ↔ t ∈ ctx)
    (o r : String) (ho : o ≠ "") (hr : r ≠ "") :
    ∃ us, thisLeaf m ctxO stored o r = .users (objRel o r) us ∧ us.Pairwise (· < ·) ∧ us.Nodup ∧
      ∀ u, u ∈ us ↔ ∃ t, t ∈ ctx ++ stored ∧ t.obj = o ∧ t.rel = r ∧ validForRead m t = true ∧ t.user = u := by
  refine ⟨_, rfl, sortedSet_sorted _, ?_, ?_⟩
  · exact (sortedSet_sorted _).imp (fun {a b} h e => by subst e; exact String.lt_irrefl a h)
  · intro u
    rw [mem_sortedSet, List.mem_map]
    constructor
    · rintro ⟨t, ht, rfl⟩
      have := (mem_validRead m ctx ctxO stored hperm o r ho hr t).mp ht
      simp only [validOn, List.mem_filter, Bool.and_eq_true, decide_eq_true_eq] at this
      exact ⟨t, this.1, this.2.1.1, this.2.1.2, this.2.2, rfl⟩
    · rintro ⟨t, ht, h1, h2, h3, rfl⟩
      refine ⟨t, (mem_validRead m ctx ctxO stored hperm o r ho hr t).mpr ?_, rfl⟩
      simp only [validOn, List.mem_filter, Bool.and_eq_true, decide_eq_true_eq]
      exact ⟨ht, ⟨h1, h2⟩, h3⟩

/-- the leaf only depends on the *set* of valid users: the order of the store, the order of the
contextual tuples and the split between the two do not matter -/
theorem thisLeaf_congr (m : Model) (ctxO₁ stored₁ ctxO₂ stored₂ : List Tuple) (o r : String)
    (h : ∀ u, u ∈ (validRead m ctxO₁ stored₁ o r).map (·.user) ↔ u ∈ (validRead m ctxO₂ stored₂ o r).map (·.user)) :
    thisLeaf m ctxO₁ stored₁ o r = thisLeaf m ctxO₂ stored₂ o r := by
  unfold thisLeaf
  congr 1
  apply leaves_unique _ _ (sortedSet_sorted _) (sortedSet_sorted _)
  intro x
  rw [mem_sortedSet, mem_sortedSet]
  exact h x

/-- **Duplicates between contextual and stored tuples**: a contextual tuple on `o#r` whose user already
occurs on a valid stored (or other contextual) tuple of `o#r` leaves the leaf unchanged — the user is
listed once, whatever the conditions of the two tuples. -/
theorem expand_leaves_ctx_dup (m : Model) (ctxO stored : List Tuple) (c : Tuple) (o r : String)
    (ho : o ≠ "") (hr : r ≠ "")
    (hdup : ∃ t, t ∈ ctxO ++ stored ∧ t.obj = o ∧ t.rel = r ∧ validForRead m t = true ∧ t.user = c.user) :
    thisLeaf m (c :: ctxO) stored o r = thisLeaf m ctxO stored o r := by
  apply thisLeaf_congr
  intro u
  simp only [List.mem_map]
  have e1 := fun t => mem_validRead m (c :: ctxO) (c :: ctxO) stored (fun _ => Iff.rfl) o r ho hr t
  have e2 := fun t => mem_validRead m ctxO ctxO stored (fun _ => Iff.rfl) o r ho hr t
  simp only [validOn, List.mem_filter, Bool.and_eq_true, decide_eq_true_eq] at e1 e2
  constructor
  · rintro ⟨t, ht, rfl⟩
    have h1 := (e1 t).mp ht
    rcases List.mem_append.mp h1.1 with hc | hs
    · rcases List.mem_cons.mp hc with rfl | hc
      · obtain ⟨t', ht', h1', h2', h3', h4'⟩ := hdup
        exact ⟨t', (e2 t').mpr ⟨ht', ⟨h1', h2'⟩, h3'⟩, h4'⟩
      · exact ⟨t, (e2 t).mpr ⟨List.mem_append.mpr (Or.inl hc), h1.2⟩, rfl⟩
    · exact ⟨t, (e2 t).mpr ⟨List.mem_append.mpr (Or.inr hs), h1.2⟩, rfl⟩
  · rintro ⟨t, ht, rfl⟩
    have h1 := (e2 t).mp ht
    refine ⟨t, (e1 t).mpr ⟨?_, h1.2⟩, rfl⟩
    rcases List.mem_append.mp h1.1 with h | h
    · exact List.mem_append.mpr (Or.inl (List.mem_cons_of_mem _ h))
    · exact List.mem_append.mpr (Or.inr h)

/-- **Computed leaves** name `object#computedRelation` -/
theorem expand_computed (m : Model) (ctxO stored : List Tuple) (o r cr : String) (hcr : cr ≠ "") :
    expandRw m ctxO stored o r (.computed cr) = some (.computed (objRel o r) (objRel o cr)) := by
  simp [expandRw, computedLeaf, hcr]

/-- **Tuple-to-userset leaves** name `object#tupleset`; their computed usersets are, without duplicates
and in read order, `userObject#computed` for the valid tuples on `object#tupleset`. -/
theorem expand_ttu (m : Model) (ctx ctxO stored : List Tuple) (hperm : ∀ t, t ∈ ctxO ↔ t ∈ ctx)
    (o r ts cr : String) (ho : o ≠ "") (hts : ts ≠ "") (t : Tree)
    (h : expandRw m ctxO stored o r (.ttu ts cr) = some t) :
    ∃ cs, t = .ttu (objRel o r) (objRel o ts) cs ∧ cs.Nodup ∧
      cs.Sublist ((validRead m ctxO stored o ts).map (fun x => ttuTarget cr x.user)) ∧
      ∀ c, c ∈ cs ↔ ∃ x, x ∈ ctx ++ stored ∧ x.obj = o ∧ x.rel = ts ∧ validForRead m x = true ∧
        ttuTarget cr x.user = c := by
  simp only [expandRw, ttuLeaf, hts, if_false] at h
  split at h
  · exact absurd h (by simp)
  · injection h with h
    refine ⟨_, h.symm, dedupKeep_nodup _ _, dedupKeep_sublist _ _, ?_⟩
    intro c
    rw [mem_dedupKeep, List.mem_map]
    simp only [List.not_mem_nil, not_false_eq_true, and_true]
    constructor
    · rintro ⟨x, hx, rfl⟩
      have := (mem_validRead m ctx ctxO stored hperm o ts ho hts x).mp hx
      simp only [validOn, List.mem_filter, Bool.and_eq_true, decide_eq_true_eq] at this
      exact ⟨x, this.1, this.2.1.1, this.2.1.2, this.2.2, rfl⟩
    · rintro ⟨x, hx, h1, h2, h3, rfl⟩
      refine ⟨x, (mem_validRead m ctx ctxO stored hperm o ts ho hts x).mpr ?_, rfl⟩
      simp only [validOn, List.mem_filter, Bool.and_eq_true, decide_eq_true_eq]
      exact ⟨hx, ⟨h1, h2⟩, h3⟩

/-- for a valid tupleset tuple (its user is a plain object) the target is `user#computed` -/
theorem ttuTarget_object (cr user : String) (h : isUserset user = false) :
    ttuTarget cr user = objRel (splitUserset user).1 cr := by
  simp only [isUserset, ne_eq, decide_not, Bool.not_eq_eq_eq_not, Bool.not_false, decide_eq_true_eq] at h
  simp [ttuTarget, h]

/-! ## the whole tree -/

mutual
/-- **The model's tree satisfies the property check** — the check the driver applies to the real tree. -/
theorem expand_conforms (m : Model) (ctx ctxO stored : List Tuple) (hperm : ∀ t, t ∈ ctxO ↔ t ∈ ctx)
    (o r : String) (ho : o ≠ "") (hr : r ≠ "") :
    ∀ (rw : Rewrite) (t : Tree), expandRw m ctxO stored o r rw = some t →
      conforms m (ctx ++ stored) o r rw t = true
  | .this, t, h => by
    simp only [expandRw, Option.some.injEq] at h
    subst h
    simp only [thisLeaf, conforms, decide_true, Bool.true_and, Bool.and_eq_true]
    refine ⟨(strictAsc_iff _).mpr (sortedSet_sorted _), (sameSet_iff _ _).mpr ?_⟩
    intro x
    rw [mem_sortedSet]
    simp only [List.mem_map]
    constructor <;> rintro ⟨y, hy, rfl⟩
    · exact ⟨y, (mem_validRead m ctx ctxO stored hperm o r ho hr y).mp hy, rfl⟩
    · exact ⟨y, (mem_validRead m ctx ctxO stored hperm o r ho hr y).mpr hy, rfl⟩
  | .computed cr, t, h => by
    simp only [expandRw, Option.some.injEq] at h
    subst h
    simp [computedLeaf, conforms]
  | .ttu ts cr, t, h => by
    simp only [expandRw, ttuLeaf] at h
    split at h
    · exact absurd h (by simp)
    · injection h with h
      subst h
      have hts : (if ts = "" then r else ts) ≠ "" := by split <;> assumption
      simp only [conforms, decide_true, Bool.true_and, Bool.and_eq_true]
      refine ⟨(nodupB_iff _).mpr (dedupKeep_nodup _ _), (sameSet_iff _ _).mpr ?_⟩
      intro x
      rw [mem_dedupKeep]
      simp only [List.mem_map, List.not_mem_nil, not_false_eq_true, and_true]
      constructor <;> rintro ⟨y, hy, rfl⟩
      · exact ⟨y, (mem_validRead m ctx ctxO stored hperm o _ ho hts y).mp hy, rfl⟩
      · exact ⟨y, (mem_validRead m ctx ctxO stored hperm o _ ho hts y).mpr hy, rfl⟩
  | .union cs, t, h => by
    simp only [expandRw, Option.map_eq_some_iff] at h
    obtain ⟨ks, hks, rfl⟩ := h
    simp only [conforms, decide_true, Bool.true_and]
    exact expandList_conforms m ctx ctxO stored hperm o r ho hr cs ks hks
  | .inter cs, t, h => by
    simp only [expandRw, Option.map_eq_some_iff] at h
    obtain ⟨ks, hks, rfl⟩ := h
    simp only [conforms, decide_true, Bool.true_and]
    exact expandList_conforms m ctx ctxO stored hperm o r ho hr cs ks hks
  | .diff b s, t, h => by
    simp only [expandRw] at h
    split at h
    · rename_i tb tsub hb hs
      injection h with h
      subst h
      simp only [conforms, decide_true, Bool.true_and, Bool.and_eq_true]
      exact ⟨expand_conforms m ctx ctxO stored hperm o r ho hr b tb hb,
             expand_conforms m ctx ctxO stored hperm o r ho hr s tsub hs⟩
    · exact absurd h (by simp)
theorem expandList_conforms (m : Model) (ctx ctxO stored : List Tuple) (hperm : ∀ t, t ∈ ctxO ↔ t ∈ ctx)
    (o r : String) (ho : o ≠ "") (hr : r ≠ "") :
    ∀ (cs : List Rewrite) (ks : List Tree), expandList m ctxO stored o r cs = some ks →
      conformsList m (ctx ++ stored) o r cs ks = true
  | [], ks, h => by
    simp only [expandList, Option.some.injEq] at h
    subst h
    simp [conformsList]
  | c :: cs, ks, h => by
    simp only [expandList] at h
    split at h
    · rename_i k ks' hk hks
      injection h with h
      subst h
      simp only [conformsList, Bool.and_eq_true]
      exact ⟨expand_conforms m ctx ctxO stored hperm o r ho hr c k hk,
             expandList_conforms m ctx ctxO stored hperm o r ho hr cs ks' hks⟩
    · exact absurd h (by simp)
end

/-! ### the shape, stated on its own -/

/-- node kinds without content -/
inductive Skel where
  | users | computed | ttu
  | union (ks : List Skel)
  | inter (ks : List Skel)
  | diff (b s : Skel)
  deriving Repr

mutual
def skelR : Rewrite → Skel
  | .this => .users
  | .computed _ => .computed
  | .ttu _ _ => .ttu
  | .union cs => .union (skelRs cs)
  | .inter cs => .inter (skelRs cs)
  | .diff b s => .diff (skelR b) (skelR s)
def skelRs : List Rewrite → List Skel
  | [] => []
  | c :: cs => skelR c :: skelRs cs
end

mutual
def skelT : Tree → Skel
  | .users _ _ => .users
  | .computed _ _ => .computed
  | .ttu _ _ _ => .ttu
  | .union _ ks => .union (skelTs ks)
  | .inter _ ks => .inter (skelTs ks)
  | .diff _ b s => .diff (skelT b) (skelT s)
def skelTs : List Tree → List Skel
  | [] => []
  | t :: ts => skelT t :: skelTs ts
end

mutual
/-- every node of the tree carries this name -/
def allNamed (n : String) : Tree → Bool
  | .users x _ => x = n
  | .computed x _ => x = n
  | .ttu x _ _ => x = n
  | .union x ks => x = n && allNamedL n ks
  | .inter x ks => x = n && allNamedL n ks
  | .diff x b s => x = n && allNamed n b && allNamed n s
def allNamedL (n : String) : List Tree → Bool
  | [] => true
  | t :: ts => allNamed n t && allNamedL n ts
end

mutual
theorem conforms_shape (m : Model) (all : List Tuple) (o r : String) :
    ∀ (rw : Rewrite) (t : Tree), conforms m all o r rw t = true →
      skelT t = skelR rw ∧ allNamed (objRel o r) t = true
  | .this, .users n us, h => by
    simp only [conforms, Bool.and_eq_true, decide_eq_true_eq] at h
    simp [skelT, skelR, allNamed, h.1.1]
  | .computed cr, .computed n u, h => by
    simp only [conforms, Bool.and_eq_true, decide_eq_true_eq] at h
    simp [skelT, skelR, allNamed, h.1]
  | .ttu ts cr, .ttu n tsn cs, h => by
    simp only [conforms, Bool.and_eq_true, decide_eq_true_eq] at h
    simp [skelT, skelR, allNamed, h.1.1.1]
  | .union cs, .union n ks, h => by
    simp only [conforms, Bool.and_eq_true, decide_eq_true_eq] at h
    have := conformsList_shape m all o r cs ks h.2
    simp [skelT, skelR, allNamed, h.1, this.1, this.2]
  | .inter cs, .inter n ks, h => by
    simp only [conforms, Bool.and_eq_true, decide_eq_true_eq] at h
    have := conformsList_shape m all o r cs ks h.2
    simp [skelT, skelR, allNamed, h.1, this.1, this.2]
  | .diff b s, .diff n tb tsub, h => by
    simp only [conforms, Bool.and_eq_true, decide_eq_true_eq] at h
    have h1 := conforms_shape m all o r b tb h.1.2
    have h2 := conforms_shape m all o r s tsub h.2
    simp [skelT, skelR, allNamed, h.1.1, h1.1, h1.2, h2.1, h2.2]
  | .this, .computed _ _, h | .this, .ttu _ _ _, h | .this, .union _ _, h | .this, .inter _ _, h
  | .this, .diff _ _ _, h => by simp [conforms] at h
  | .computed _, .users _ _, h | .computed _, .ttu _ _ _, h | .computed _, .union _ _, h
  | .computed _, .inter _ _, h | .computed _, .diff _ _ _, h => by simp [conforms] at h
  | .ttu _ _, .users _ _, h | .ttu _ _, .computed _ _, h | .ttu _ _, .union _ _, h
  | .ttu _ _, .inter _ _, h | .ttu _ _, .diff _ _ _, h => by simp [conforms] at h
  | .union _, .users _ _, h | .union _, .computed _ _, h | .union _, .ttu _ _ _, h
  | .union _, .inter _ _, h | .union _, .diff _ _ _, h => by simp [conforms] at h
  | .inter _, .users _ _, h | .inter _, .computed _ _, h | .inter _, .ttu _ _ _, h
  | .inter _, .union _ _, h | .inter _, .diff _ _ _, h => by simp [conforms] at h
  | .diff _ _, .users _ _, h | .diff _ _, .computed _ _, h | .diff _ _, .ttu _ _ _, h
  | .diff _ _, .union _ _, h | .diff _ _, .inter _ _, h => by simp [conforms] at h
theorem conformsList_shape (m : Model) (all : List Tuple) (o r : String) :
    ∀ (cs : List Rewrite) (ks : List Tree), conformsList m all o r cs ks = true →
      skelTs ks = skelRs cs ∧ allNamedL (objRel o r) ks = true
  | [], [], _ => by simp [skelTs, skelRs, allNamedL]
  | c :: cs, k :: ks, h => by
    simp only [conformsList, Bool.and_eq_true] at h
    have h1 := conforms_shape m all o r c k h.1
    have h2 := conformsList_shape m all o r cs ks h.2
    simp [skelTs, skelRs, allNamedL, h1.1, h1.2, h2.1, h2.2]
  | [], _ :: _, h | _ :: _, [], h => by simp [conformsList] at h
end

/-- **Shape**: the tree's node kinds are the rewrite's, children in the rewrite's order, and every node
(internal or leaf) is named `object#relation` of the request. -/
theorem expand_shape (m : Model) (ctxO stored : List Tuple) (o r : String) (ho : o ≠ "") (hr : r ≠ "")
    (rw : Rewrite) (t : Tree) (h : expandRw m ctxO stored o r rw = some t) :
    skelT t = skelR rw ∧ allNamed (objRel o r) t = true :=
  conforms_shape m (ctxO ++ stored) o r rw t
    (expand_conforms m ctxO ctxO stored (fun _ => Iff.rfl) o r ho hr rw t h)

/-! ## Execute -/

/-- a successful `Execute` returns a conforming tree for the relation's rewrite -/
theorem execute_ok_conforms (m : Model) (stored ctx : List Tuple) (o r : String) (t : Tree)
    (h : execute m stored ctx o r = .ok t) :
    ∃ rd, m.findRel (typeOf o) r = some rd ∧ conforms m (ctx ++ stored) o r rd.rewrite t = true ∧
      ∀ c ∈ ctx, writeErr m c = none := by
  unfold execute at h
  split at h
  · exact absurd h (by simp)
  · rename_i hor
    simp only [Bool.or_eq_true, decide_eq_true_eq, not_or] at hor
    split at h
    · exact absurd h (by simp)
    · rename_i hctx
      split at h
      · exact absurd h (by simp)
      · split at h
        · exact absurd h (by simp)
        · rename_i rd hrd
          split at h
          · rename_i t' ht'
            injection h with h
            subst h
            refine ⟨rd, hrd, expand_conforms m ctx _ stored (mem_orderCtx ctx) o r hor.1 hor.2 _ _ ht', ?_⟩
            intro c hc
            exact (List.findSome?_eq_none_iff.mp hctx) c hc
          · exact absurd h (by simp)

/-- an invalid contextual tuple fails the whole request (first one decides the error) -/
theorem execute_err_ctx (m : Model) (stored ctx : List Tuple) (o r : String) (ho : o ≠ "") (hr : r ≠ "")
    (e : Err) (h : ctx.findSome? (writeErr m) = some e) : execute m stored ctx o r = .err e := by
  simp [execute, ho, hr, h]

theorem execute_err_empty (m : Model) (stored ctx : List Tuple) (o r : String) (h : o = "" ∨ r = "") :
    execute m stored ctx o r = .err .invalidInput := by
  rcases h with h | h <;> simp [execute, h]

/-- on a model whose tupleset relations are all defined (validated models) `resolveUserset` cannot fail -/
def tuplesetsDefined (m : Model) (typ : String) : Rewrite → Bool
  | rw => rw.ttus.all (fun p => (m.findRel typ p.1).isSome)

mutual
theorem expandRw_total (m : Model) (ctxO stored : List Tuple) (o r : String) :
    ∀ (rw : Rewrite), (∀ p ∈ rw.ttus, (m.findRel (typeOf o) p.1).isSome = true) →
      (expandRw m ctxO stored o r rw).isSome = true
  | .this, _ => by simp [expandRw]
  | .computed _, _ => by simp [expandRw]
  | .ttu ts cr, h => by
    have := h (ts, cr) (by simp [Rewrite.ttus])
    simp only [expandRw, ttuLeaf]
    split
    · rename_i hn; simp [hn] at this
    · simp
  | .union cs, h => by
    have := expandList_total m ctxO stored o r cs (by simpa [Rewrite.ttus] using h)
    simp only [expandRw, Option.isSome_map]; exact this
  | .inter cs, h => by
    have := expandList_total m ctxO stored o r cs (by simpa [Rewrite.ttus] using h)
    simp only [expandRw, Option.isSome_map]; exact this
  | .diff b s, h => by
    have hb := expandRw_total m ctxO stored o r b (fun p hp => h p (by simp [Rewrite.ttus, hp]))
    have hs := expandRw_total m ctxO stored o r s (fun p hp => h p (by simp [Rewrite.ttus, hp]))
    simp only [expandRw]
    obtain ⟨tb, htb⟩ := Option.isSome_iff_exists.mp hb
    obtain ⟨ts', hts'⟩ := Option.isSome_iff_exists.mp hs
    simp [htb, hts']
theorem expandList_total (m : Model) (ctxO stored : List Tuple) (o r : String) :
    ∀ (cs : List Rewrite), (∀ p ∈ cs.flatMap Rewrite.ttus, (m.findRel (typeOf o) p.1).isSome = true) →
      (expandList m ctxO stored o r cs).isSome = true
  | [], _ => by simp [expandList]
  | c :: cs, h => by
    have hc := expandRw_total m ctxO stored o r c (fun p hp => h p (by simp [hp]))
    have hcs := expandList_total m ctxO stored o r cs (fun p hp => h p (by
      simp only [List.flatMap_cons, List.mem_append]; exact Or.inr hp))
    simp only [expandList]
    obtain ⟨t, ht⟩ := Option.isSome_iff_exists.mp hc
    obtain ⟨ts, hts⟩ := Option.isSome_iff_exists.mp hcs
    simp [ht, hts]
end

/-! ## Ties to the regenerated source facts (`Gen.Expand`, extract/facts_expand.go) -/

/-- `resolveUserset` dispatches on the rewrite kind to these functions (type switch, source order) -/
theorem tie_resolve_switch : Gen.Expand.resolveSwitch =
    ["nil|*openfgav1.Userset_This=>resolveThis", "*openfgav1.Userset_ComputedUserset=>resolveComputedUserset",
     "*openfgav1.Userset_TupleToUserset=>resolveTupleToUserset", "*openfgav1.Userset_Union=>resolveUnionUserset",
     "*openfgav1.Userset_Difference=>resolveDifferenceUserset",
     "*openfgav1.Userset_Intersection=>resolveIntersectionUserset", "default=>ErrUnsupportedUserSet"] := by decide

/-- every node constructor names the node `toObjectRelation(tk)` with the *request's* key, and the
recursion passes `tk` on unchanged -/
theorem tie_node_names : Gen.Expand.nodeNames =
    ["resolveThis:toObjectRelation(tk)", "resolveComputedUserset:toObjectRelation(tk)",
     "resolveTupleToUserset:toObjectRelation(tk)", "resolveUnionUserset:toObjectRelation(tk)",
     "resolveIntersectionUserset:toObjectRelation(tk)", "resolveDifferenceUserset:toObjectRelation(tk)"] ∧
    Gen.Expand.recursionKeepsTupleKey = true := by decide

/-- `resolveThis`: read filter, validity filter (no condition evaluation), set of users, sort -/
theorem tie_resolve_this : Gen.Expand.thisReadFilter = ["Object:tk.GetObject()", "Relation:tk.GetRelation()", "User:tk.GetUser()"] ∧
    Gen.Expand.thisFilterFunc = "validation.FilterInvalidTuples(typesys)" ∧
    Gen.Expand.thisCollects = "distinctUsers[tk.GetUser()] = true" ∧
    Gen.Expand.thisSorts = true ∧ Gen.Expand.thisEvaluatesConditions = false := by decide

/-- `resolveTupleToUserset`: tupleset lookup, read filter, validity filter, relation default, `seen`
de-duplication, **no** sort -/
theorem tie_resolve_ttu : Gen.Expand.ttuFilterFunc = "validation.FilterInvalidTuples(typesys)" ∧
    Gen.Expand.ttuReadFilter = ["Object:tsKey.GetObject()", "Relation:tsKey.GetRelation()", "User:tsKey.GetUser()"] ∧
    Gen.Expand.ttuConds = ["err != nil", "errors.Is(err, typesystem.ErrObjectTypeUndefined)",
      "errors.Is(err, typesystem.ErrRelationUndefined)", "tsKey.GetRelation() == \"\"", "err != nil", "err != nil",
      "errors.Is(err, storage.ErrIteratorDone)", "tRelation == \"\"", "!seen[computedRelation]"] ∧
    Gen.Expand.ttuSorts = false ∧ Gen.Expand.ttuEvaluatesConditions = false := by decide

/-- children keep their index; difference = [base, subtract] -/
theorem tie_children_order : Gen.Expand.usersetsAssign = "out[i] = node" ∧
    Gen.Expand.differenceOperands = "[]*openfgav1.Userset{userset.GetBase(), userset.GetSubtract()}" ∧
    Gen.Expand.differenceBase = "nodes[0]" ∧ Gen.Expand.differenceSubtract = "nodes[1]" := by decide

/-- the guard sequence of `Execute` -/
theorem tie_execute_steps : Gen.Expand.executeSteps =
    ["if:object == \"\" || relation == \"\"", "typesystem.TypesystemFromContext", "if:!ok",
     "range:req.GetContextualTuples().GetTupleKeys()", "validation.ValidateTupleForWrite", "serverErrors.HandleTupleValidateError",
     "validation.ValidateObject", "serverErrors.ValidationError", "validation.ValidateRelation", "serverErrors.ValidationError",
     "storagewrappers.NewCombinedTupleReader", "typesys.GetRelation", "q.resolveUserset"] := by decide

/-- `toObjectRelation` / `ToObjectRelationString` -/
theorem tie_object_relation : Gen.Expand.toObjectRelationBody = "tupleUtils.ToObjectRelationString(tk.GetObject(), tk.GetRelation())" ∧
    Gen.Expand.objectRelationFormat = "object + \"#\" + relation" := by decide


/-! ## Request scoping: contextual tuples belong to their request

`ExpandQuery.Execute` rebinds the query's own `datastore` field to a `CombinedTupleReader` over the *previous* value of
that field and the request's contextual tuples (`Gen.ExpandScope.executeReceiverAssigns`).  A query object therefore
accumulates the contextual tuples of every request it ever served; the property "the leaves list the valid stored
tuples and the contextual tuples **of this request**" holds because `Server.Expand` builds a fresh `ExpandQuery` per
request (`Gen.ExpandScope`: one `commands.NewExpandQuery(…)` call inside the handler body, `Execute` is called on that
local variable, `Server` has no field of type ExpandQuery). -/

/-- an Expand request as far as the command is concerned -/
structure XReq where
  ctx : List Tuple
  obj : String
  rel : String

/-- an `ExpandQuery` object: what its `datastore` field currently yields (read order) -/
structure Query where
  ds : List Tuple

/-- `NewExpandQuery(s.datastore)` -/
def Query.fresh (stored : List Tuple) : Query := ⟨stored⟩

/-- `q.Execute(req)`: the answer over the current `q.datastore`, and the object afterwards — its datastore is now the
combined reader (contextual tuples of this request, ordered as `NewCombinedTupleReader` orders them, in front of what
the field yielded before) -/
def Query.run (m : Model) (q : Query) (rq : XReq) : Res × Query :=
  (execute m q.ds rq.ctx rq.obj rq.rel, ⟨CombinedReader.orderCtx rq.ctx ++ q.ds⟩)

/-- the handler, per request: with `fresh` a new query object per request (the source), without it one object shared
by all requests (kept in a struct field) -/
def serve (fresh : Bool) (m : Model) (stored : List Tuple) : Query → List XReq → List Res
  | _, [] => []
  | q, rq :: rest =>
    let q0 := if fresh then Query.fresh stored else q
    let (r, q') := Query.run m q0 rq
    r :: serve fresh m stored q' rest

/-- the source facts: one `commands.NewExpandQuery` call in the handler body, `Execute` called on that local variable,
no ExpandQuery field on `Server` -/
def srcFreshQuery : Bool :=
  decide (Gen.ExpandScope.handlerNewExpandQuery = 1) && decide (Gen.ExpandScope.executeReceivers = ["q"]) &&
  Gen.ExpandScope.executeReceiversLocal && decide (Gen.ExpandScope.serverExpandQueryFields = [])

theorem tie_expand_scope : srcFreshQuery = true ∧
    Gen.ExpandScope.executeReceiverAssigns =
      ["q.datastore = storagewrappers.NewCombinedTupleReader( q.datastore, req.GetContextualTuples().GetTupleKeys(), )"] ∧
    Gen.ExpandScope.otherReceiverAssigns = [] := by decide

theorem serve_fresh (m : Model) (stored : List Tuple) : ∀ (q : Query) (rqs : List XReq),
    serve true m stored q rqs = rqs.map (fun rq => execute m stored rq.ctx rq.obj rq.rel)
  | _, [] => rfl
  | q, rq :: rest => by
    simp only [serve, Query.run, Query.fresh, if_true, List.map_cons]
    rw [serve_fresh m stored _ rest]

/-- **Request scoping**: with the handler as it is in the source (a fresh query per request), the answer to a request
after ANY history of earlier requests — whatever contextual tuples they carried, on whatever targets — is the answer
of `Execute` over the stored tuples and this request's contextual tuples alone; so a returned tree conforms to
`rq.ctx ++ stored` and to nothing else. -/
theorem expand_request_scoped (m : Model) (stored : List Tuple) (hist : List XReq) (rq : XReq) (q : Query) :
    (serve srcFreshQuery m stored q (hist ++ [rq])).getLast? = some (execute m stored rq.ctx rq.obj rq.rel) ∧
    ∀ t, execute m stored rq.ctx rq.obj rq.rel = .ok t →
      ∃ rd, m.findRel (typeOf rq.obj) rq.rel = some rd ∧ conforms m (rq.ctx ++ stored) rq.obj rq.rel rd.rewrite t = true := by
  rw [tie_expand_scope.1, serve_fresh]
  refine ⟨by simp, ?_⟩
  intro t ht
  obtain ⟨rd, h1, h2, _⟩ := execute_ok_conforms m stored rq.ctx rq.obj rq.rel t ht
  exact ⟨rd, h1, h2⟩

/-- **negative witness — a shared query object**: the second request is answered over a store in which the FIRST
request's contextual tuples are stored -/
theorem shared_query_not_scoped (m : Model) (stored : List Tuple) (rq1 rq : XReq) :
    (serve false m stored (Query.fresh stored) [rq1, rq]).getLast? =
      some (execute m (CombinedReader.orderCtx rq1.ctx ++ stored) rq.ctx rq.obj rq.rel) := by
  simp [serve, Query.run, Query.fresh]

/-! ## Non-vacuity -/

def exModel : Model :=
  { types := [{ name := "user", rels := [] },
              { name := "folder", rels := [{ name := "viewer", rewrite := .this, restrs := [{ typ := "user", rel := "", wild := false, cond := "" }] }] },
              { name := "doc", rels := [
                { name := "parent", rewrite := .this, restrs := [{ typ := "folder", rel := "", wild := false, cond := "" }] },
                { name := "editor", rewrite := .this, restrs := [{ typ := "user", rel := "", wild := false, cond := "" }] },
                { name := "viewer", rewrite := .diff (.union [.this, .computed "editor", .ttu "parent" "viewer"]) (.computed "editor"),
                  restrs := [{ typ := "user", rel := "", wild := false, cond := "" }] }] }],
    conds := [] }

def exStored : List Tuple :=
  [{ obj := "doc:1", rel := "viewer", user := "user:z", cond := "", ctx := [] },
   { obj := "doc:1", rel := "viewer", user := "user:b", cond := "", ctx := [] },
   { obj := "doc:1", rel := "viewer", user := "folder:x", cond := "", ctx := [] },   -- invalid leftover
   { obj := "doc:1", rel := "parent", user := "folder:p", cond := "", ctx := [] }]

def exCtx : List Tuple :=
  [{ obj := "doc:1", rel := "viewer", user := "user:z", cond := "", ctx := [] },     -- duplicate of a stored key
   { obj := "doc:1", rel := "viewer", user := "user:a", cond := "", ctx := [] }]

/-- the hypotheses of `expand_conforms` / `expand_shape` are satisfiable on a world with tuples -/
example : (expandRw exModel exCtx exStored "doc:1" "viewer"
    (.diff (.union [.this, .computed "editor", .inter [.this, .this]]) (.computed "editor"))).isSome = true :=
  expandRw_total exModel exCtx exStored "doc:1" "viewer" _ (by simp [Rewrite.ttus])

example : sortedSet ["user:z", "user:b", "user:z", "user:a"] = ["user:a", "user:b", "user:z"] := by decide
example : dedupKeep [] ["f:2#v", "f:1#v", "f:2#v"] = ["f:2#v", "f:1#v"] := by decide
example : strictAsc ["user:a", "user:b"] = true ∧ strictAsc ["user:b", "user:a"] = false ∧
    strictAsc ["user:a", "user:a"] = false := by decide

/-! concrete evaluations of the executable model (string splitting does not reduce in the kernel, so these
are build-time evaluations, not kernel proofs; they show the model and the check are not degenerate) -/

#guard (execute exModel exStored exCtx "doc:1" "viewer").render =
    "diff doc:1#viewer union doc:1#viewer 3 users doc:1#viewer 3 user:a user:b user:z computed doc:1#viewer doc:1#editor " ++
    "ttu doc:1#viewer doc:1#parent 1 folder:p#viewer computed doc:1#viewer doc:1#editor"

-- the check rejects: wrong order, a missing user, an invalid user, a duplicate, a wrong node name
#guard conforms exModel (exCtx ++ exStored) "doc:1" "editor" .this (.users "doc:1#editor" []) = true
#guard conforms exModel (exCtx ++ exStored) "doc:1" "viewer" .this (.users "doc:1#viewer" ["user:a", "user:b", "user:z"]) = true
#guard conforms exModel (exCtx ++ exStored) "doc:1" "viewer" .this (.users "doc:1#viewer" ["user:b", "user:a", "user:z"]) = false
#guard conforms exModel (exCtx ++ exStored) "doc:1" "viewer" .this (.users "doc:1#viewer" ["user:b", "user:z"]) = false
#guard conforms exModel (exCtx ++ exStored) "doc:1" "viewer" .this (.users "doc:1#viewer" ["folder:x", "user:a", "user:b", "user:z"]) = false
#guard conforms exModel (exCtx ++ exStored) "doc:1" "viewer" .this (.users "doc:1#viewer" ["user:a", "user:b", "user:z", "user:z"]) = false
#guard conforms exModel (exCtx ++ exStored) "doc:1" "viewer" .this (.users "doc:1#editor" ["user:a", "user:b", "user:z"]) = false

-- concrete: `user:a` arrives as a contextual tuple of the first request only; a shared query lists it in the second answer
#guard (serve true exModel exStored (Query.fresh exStored) [⟨exCtx, "doc:1", "viewer"⟩, ⟨[], "doc:1", "viewer"⟩]).map Res.render =
  [(execute exModel exStored exCtx "doc:1" "viewer").render, (execute exModel exStored [] "doc:1" "viewer").render]
#guard ((serve false exModel exStored (Query.fresh exStored) [⟨exCtx, "doc:1", "viewer"⟩, ⟨[], "doc:1", "viewer"⟩]).map Res.render).getLast? ≠
  some (execute exModel exStored [] "doc:1" "viewer").render

/-- the two tuple-read loops of Expand stop quietly only at the end of the data (`ErrIteratorDone`): a cancelled or
failed read is an error of the request, never a shorter leaf (the model's `execute` reads whole lists) -/
theorem tie_read_loops_stop_only_at_end : Gen.Expand.loopBreaks =
    ["resolveThis: errors.Is(err, storage.ErrIteratorDone)",
     "resolveTupleToUserset: errors.Is(err, storage.ErrIteratorDone)"] := by decide

end OpenFGAVerif.C30
