/-
C31 — Assertions are stored and returned verbatim per store and model.

Model: `Model.Assertions` (memory: one map keyed by "store|model"; sqlite: table with the composite
primary key, upsert, protobuf blob; the command's guards). Assertions are opaque values; protobuf
marshal/unmarshal is a `Codec` whose round trip is a hypothesis (trusted library).
-/
import OpenFGAVerif.Model.Assertions
import OpenFGAVerif.Gen.Assertions
import OpenFGAVerif.Props.ResolverKeys
namespace OpenFGAVerif.C31
open OpenFGAVerif.Model.Assertions

variable {A : Type}

/-! ## the specification: the last list written per (store, model) -/

theorem spec_run_eq_lastWritten (sp : Spec A) (h : List (Op A)) (s m : Bytes) :
    (sp.run h) s m = lastWritten (sp s m) h s m := by
  induction h generalizing sp with
  | nil => rfl
  | cons op rest ih =>
    simp only [Spec.run, List.foldl_cons] at ih ⊢
    rw [ih]
    cases op with
    | write s' m' as =>
      simp only [Spec.step, Spec.write, lastWritten]
      have : (s = s' ∧ m = m') = (s' = s ∧ m' = m) := by
        apply propext; constructor <;> (rintro ⟨rfl, rfl⟩; exact ⟨rfl, rfl⟩)
      simp only [this]
    | read _ _ => simp [Spec.step, lastWritten]
    | deleteStore _ => simp [Spec.step, lastWritten]

theorem lastWritten_append (init : List A) (h1 h2 : List (Op A)) (s m : Bytes) :
    lastWritten init (h1 ++ h2) s m = lastWritten (lastWritten init h1 s m) h2 s m := by
  induction h1 generalizing init with
  | nil => rfl
  | cons op rest ih => cases op <;> simp [lastWritten, ih]

/-- **read after write** (specification level): after any history that ends with a write to (s, m) the
list read is exactly the list written -/
theorem lastWritten_write_last (init : List A) (h : List (Op A)) (s m : Bytes) (as : List A) :
    lastWritten init (h ++ [.write s m as]) s m = as := by
  simp [lastWritten_append, lastWritten]

/-- **frame**: a write to another pair, a read and a DeleteStore change nothing for (s, m) -/
theorem lastWritten_frame (init : List A) (h : List (Op A)) (s m : Bytes) (op : Op A)
    (hop : ∀ as, op ≠ .write s m as) : lastWritten init (h ++ [op]) s m = lastWritten init h s m := by
  rw [lastWritten_append]
  cases op with
  | write s' m' as =>
    have : ¬ (s' = s ∧ m' = m) := by rintro ⟨rfl, rfl⟩; exact hop as rfl
    simp [lastWritten, this]
  | read _ _ => simp [lastWritten]
  | deleteStore _ => simp [lastWritten]

/-- **default**: a pair never written reads as the initial value (`[]` on a fresh datastore) -/
theorem lastWritten_never_written (init : List A) (h : List (Op A)) (s m : Bytes)
    (hn : ∀ as, Op.write s m as ∉ h) : lastWritten init h s m = init := by
  induction h generalizing init with
  | nil => rfl
  | cons op rest ih =>
    have hr : ∀ as, Op.write s m as ∉ rest := fun as hm => hn as (List.mem_cons_of_mem _ hm)
    cases op with
    | write s' m' as =>
      have : ¬ (s' = s ∧ m' = m) := by rintro ⟨rfl, rfl⟩; exact hn as List.mem_cons_self
      simp [lastWritten, this, ih _ hr]
    | read _ _ => simp [lastWritten, ih _ hr]
    | deleteStore _ => simp [lastWritten, ih _ hr]

/-! ## memory -/

theorem memGet_memSet (st : MemState A) (k k' : Bytes) (v : List A) :
    memGet (memSet st k v) k' = if k' = k then some v else memGet st k' := by
  induction st with
  | nil => simp [memSet, memGet, eq_comm]
  | cons x xs ih =>
    obtain ⟨k0, v0⟩ := x
    simp only [memSet]
    by_cases h0 : k0 = k
    · subst h0
      simp only [if_true, memGet]
      by_cases h1 : k0 = k' <;> simp [h1, eq_comm]
      intro e; exact absurd e.symm h1
    · simp only [h0, if_false, memGet, ih]
      by_cases h1 : k0 = k'
      · subst h1; simp [h0]
      · simp [h1]

/-- splitting at the first '|': two bar-free prefixes followed by '|' determine each other -/
theorem prefix_bar_unique (s1 s2 r1 r2 : Bytes) (h1 : bar ∉ s1) (h2 : bar ∉ s2)
    (h : s1 ++ bar :: r1 = s2 ++ bar :: r2) : s1 = s2 ∧ r1 = r2 := by
  induction s1 generalizing s2 with
  | nil =>
    cases s2 with
    | nil => simpa using h
    | cons y ys => simp at h; exact absurd (h.1 ▸ List.mem_cons_self) h2
  | cons x xs ih =>
    cases s2 with
    | nil => simp at h; exact absurd (h.1 ▸ List.mem_cons_self) h1
    | cons y ys =>
      simp at h
      obtain ⟨rfl, h⟩ := h
      have := ih ys (fun m => h1 (List.mem_cons_of_mem _ m)) (fun m => h2 (List.mem_cons_of_mem _ m)) h
      exact ⟨by rw [this.1], this.2⟩

/-- **the memory key is injective on bar-free store ids** (ULIDs); the model id may be anything -/
theorem memKey_injective (s1 s2 m1 m2 : Bytes) (h1 : bar ∉ s1) (h2 : bar ∉ s2)
    (h : memKey [bar] s1 m1 = memKey [bar] s2 m2) : s1 = s2 ∧ m1 = m2 := by
  unfold memKey at h
  simp only [List.append_assoc, List.singleton_append] at h
  exact prefix_bar_unique s1 s2 m1 m2 h1 h2 h

theorem memRead_memWrite (st : MemState A) (s m s' m' : Bytes) (as : List A) (h1 : bar ∉ s) (h2 : bar ∉ s') :
    memRead [bar] (memWrite [bar] st s' m' as) s m = if s' = s ∧ m' = m then as else memRead [bar] st s m := by
  unfold memRead memWrite
  rw [memGet_memSet]
  by_cases hk : memKey [bar] s m = memKey [bar] s' m'
  · obtain ⟨rfl, rfl⟩ := memKey_injective _ _ _ _ h1 h2 hk
    simp
  · have : ¬ (s' = s ∧ m' = m) := by rintro ⟨rfl, rfl⟩; exact hk rfl
    simp [hk, this]

/-- every store id written in the history is bar-free -/
def BarFree (h : List (Op A)) : Prop := ∀ s m as, Op.write s m as ∈ h → bar ∉ s

/-- **memory, all histories**: after any interleaving of writes, reads and DeleteStores over any number
of stores and models (store ids without '|'), reading (s, m) gives the list most recently written
for exactly that pair — verbatim — or what was there before -/
theorem mem_history (st : MemState A) (h : List (Op A)) (s m : Bytes) (hs : bar ∉ s) (hb : BarFree h) :
    memRead [bar] (memRun [bar] st h) s m = lastWritten (memRead [bar] st s m) h s m := by
  induction h generalizing st with
  | nil => rfl
  | cons op rest ih =>
    have hr : BarFree rest := fun s' m' as hm => hb s' m' as (List.mem_cons_of_mem _ hm)
    simp only [memRun, List.foldl_cons] at ih ⊢
    rw [ih _ hr]
    cases op with
    | write s' m' as =>
      have hs' : bar ∉ s' := hb s' m' as List.mem_cons_self
      simp only [memStep, lastWritten, memRead_memWrite st s m s' m' as hs hs']
    | read _ _ => simp [memStep, lastWritten]
    | deleteStore _ => simp [memStep, lastWritten]

/-- on a fresh memory datastore -/
theorem mem_fresh (h : List (Op A)) (s m : Bytes) (hs : bar ∉ s) (hb : BarFree h) :
    memRead [bar] (memRun [bar] [] h) s m = lastWritten [] h s m := by
  rw [mem_history [] h s m hs hb]; rfl

/-- **negation witness without the hypothesis**: with '|' in a store id two different pairs share one key —
writing ("a|b", "c") is read back under ("a", "b|c"), which was never written -/
theorem mem_collision_without_barfree :
    memRead [bar] (memRun [bar] [] [Op.write [97, 124, 98] [99] [(7 : Nat)]]) [97] [98, 124, 99] = [7] ∧
    lastWritten [] [Op.write [97, 124, 98] [99] [(7 : Nat)]] [97] [98, 124, 99] = [] := by
  constructor <;> rfl

/-! ## sqlite -/

theorem sqlGet_sqlUpsert (st : SqlState) (s m s' m' : Bytes) (b : Bytes) :
    sqlGet (sqlUpsert st s' m' b) s m = if s' = s ∧ m' = m then some b else sqlGet st s m := by
  induction st with
  | nil => simp [sqlUpsert, sqlGet]
  | cons x xs ih =>
    obtain ⟨⟨s0, m0⟩, b0⟩ := x
    simp only [sqlUpsert]
    by_cases h0 : s0 = s' ∧ m0 = m'
    · obtain ⟨rfl, rfl⟩ := h0
      simp only [and_self, if_true, sqlGet]
      by_cases h1 : s0 = s ∧ m0 = m <;> simp [h1]
    · simp only [h0, if_false, sqlGet, ih]
      by_cases h1 : s0 = s ∧ m0 = m
      · obtain ⟨rfl, rfl⟩ := h1
        have : ¬ (s' = s0 ∧ m' = m0) := by rintro ⟨rfl, rfl⟩; exact h0 ⟨rfl, rfl⟩
        simp [this]
      · simp [h1]

theorem sqlRead_sqlWrite (c : Codec A) (hc : c.RoundTrip) (st : SqlState) (s m s' m' : Bytes) (as : List A) :
    sqlRead c (sqlWrite c st s' m' as) s m = if s' = s ∧ m' = m then some as else sqlRead c st s m := by
  unfold sqlRead sqlWrite
  rw [sqlGet_sqlUpsert]
  by_cases h : s' = s ∧ m' = m
  · simp [h, hc as]
  · simp [h]

/-- **sqlite, all histories** (composite primary key: no hypothesis on the ids): with a protobuf codec that
round-trips, reading (s, m) after any history gives the list most recently written for that pair -/
theorem sql_history (c : Codec A) (hc : c.RoundTrip) (st : SqlState) (h : List (Op A)) (s m : Bytes)
    (init : List A) (hinit : sqlRead c st s m = some init) :
    sqlRead c (sqlRun c st h) s m = some (lastWritten init h s m) := by
  induction h generalizing st init with
  | nil => exact hinit
  | cons op rest ih =>
    simp only [sqlRun, List.foldl_cons] at ih ⊢
    cases op with
    | write s' m' as =>
      simp only [sqlStep, lastWritten]
      apply ih
      rw [sqlRead_sqlWrite c hc]
      by_cases hk : s' = s ∧ m' = m <;> simp [hk, hinit]
    | read _ _ => simp only [sqlStep, lastWritten]; exact ih _ _ hinit
    | deleteStore _ => simp only [sqlStep, lastWritten]; exact ih _ _ hinit

theorem sql_fresh (c : Codec A) (hc : c.RoundTrip) (h : List (Op A)) (s m : Bytes) :
    sqlRead c (sqlRun c [] h) s m = some (lastWritten [] h s m) :=
  sql_history c hc [] h s m [] rfl

/-- both backends agree with each other on bar-free histories -/
theorem backends_agree (c : Codec A) (hc : c.RoundTrip) (h : List (Op A)) (s m : Bytes) (hs : bar ∉ s)
    (hb : BarFree h) : sqlRead c (sqlRun c [] h) s m = some (memRead [bar] (memRun [bar] [] h) s m) := by
  rw [sql_fresh c hc, mem_fresh h s m hs hb]

/-! ## the command -/

theorem cmd_error_changes_nothing {S : Type} (maxBytes : Nat) (w : S → Bytes → Bytes → List A → S) (st : S)
    (i : CmdInput) (s m : Bytes) (as : List A) (e : CmdErr)
    (h : (cmdWrite maxBytes w st i s m as).2 = some e) : (cmdWrite maxBytes w st i s m as).1 = st := by
  unfold cmdWrite at h ⊢
  cases hg : cmdGuards maxBytes i with
  | some e' => rfl
  | none => rw [hg] at h; simp at h

theorem cmd_ok_iff {S : Type} (maxBytes : Nat) (w : S → Bytes → Bytes → List A → S) (st : S)
    (i : CmdInput) (s m : Bytes) (as : List A) :
    (cmdWrite maxBytes w st i s m as).2 = none ↔
      i.modelFound = true ∧ i.modelReadOk = true ∧ i.schemaSupported = true ∧ i.typesystemOk = true ∧
      i.totalSize ≤ maxBytes ∧ i.allValid = true := by
  unfold cmdWrite cmdGuards
  cases i.modelFound <;> cases i.modelReadOk <;> cases i.schemaSupported <;> cases i.typesystemOk <;>
    cases i.allValid <;> by_cases hsz : i.totalSize > maxBytes <;> simp [hsz] <;> omega

theorem cmd_ok_writes {S : Type} (maxBytes : Nat) (w : S → Bytes → Bytes → List A → S) (st : S)
    (i : CmdInput) (s m : Bytes) (as : List A) (h : (cmdWrite maxBytes w st i s m as).2 = none) :
    (cmdWrite maxBytes w st i s m as).1 = w st s m as := by
  unfold cmdWrite at h ⊢
  cases hg : cmdGuards maxBytes i with
  | some e => rw [hg] at h; simp at h
  | none => rfl

/-! ## Ties to the regenerated facts (`Gen.Assertions`) -/

/-- memory builds the key the same way when writing and reading: `store ‖ "|" ‖ model` -/
theorem tie_mem_key :
    Gen.Assertions.memWriteSep = [bar] ∧ Gen.Assertions.memReadSep = [bar] ∧
    Gen.Assertions.memWriteKeyArgs = ["store", "modelID"] ∧
    Gen.Assertions.memReadKeyArgs = ["store", "modelID"] := by decide

/-- memory: write = one map assignment of the slice handed in; read = lookup, `[]` on a miss -/
theorem tie_mem_statements :
    Gen.Assertions.memWriteAssigns.drop 1 =
      ["assertionsID := fmt.Sprintf(\"%s|%s\", store, modelID)", "s.assertions[assertionsID] = assertions"] ∧
    Gen.Assertions.memWriteReturns = ["nil"] ∧
    Gen.Assertions.memReadAssigns.drop 1 =
      ["assertionsID := fmt.Sprintf(\"%s|%s\", store, modelID)", "assertions, ok := s.assertions[assertionsID]"] ∧
    Gen.Assertions.memReadIfs = ["!ok"] ∧
    Gen.Assertions.memReadReturns = ["[]*openfgav1.Assertion{}, nil", "assertions, nil"] := by decide

/-- DeleteStore does not touch assertions in either backend (memory: only `s.stores`; sqlite: marks the
`store` row) -/
theorem tie_delete_store :
    Gen.Assertions.memDeleteStoreTouchesAssertions = false ∧
    Gen.Assertions.sqlDeleteStoreChain.head? = some "Update(\"store\")" := by decide

/-- sqlite: upsert on the composite key, which is the table's primary key; the blob is the marshalled
`Assertions` message; read selects by both columns, no row ⇒ empty list, otherwise unmarshal -/
theorem tie_sql :
    Gen.Assertions.sqlWriteChain =
      ["Insert(\"assertion\")", "Columns(\"store\", \"authorization_model_id\", \"assertions\")",
       "Values(store, modelID, marshalledAssertions)",
       "Suffix(\"ON CONFLICT (store, authorization_model_id) DO UPDATE SET assertions = ?\", marshalledAssertions)",
       "ExecContext(ctx)"] ∧
    Gen.Assertions.sqlAssertionPrimaryKey = "store, authorization_model_id" ∧
    Gen.Assertions.sqlWriteMarshal =
      "marshalledAssertions, err := proto.Marshal(&openfgav1.Assertions{Assertions: assertions})" ∧
    Gen.Assertions.sqlReadChain =
      ["Select(\"assertions\")", "From(\"assertion\")",
       "Where(sq.Eq{ \"store\": store, \"authorization_model_id\": modelID, })", "QueryRowContext(ctx)",
       "Scan(&marshalledAssertions)"] ∧
    Gen.Assertions.sqlReadIfs = ["err != nil", "errors.Is(err, sql.ErrNoRows)", "err != nil"] ∧
    Gen.Assertions.sqlReadReturns =
      ["[]*openfgav1.Assertion{}, nil", "nil, HandleSQLError(…)", "nil, err", "assertions.GetAssertions(…), nil"] ∧
    Gen.Assertions.sqlReadUnmarshals = true := by decide

/-- the command: model lookup, schema version, typesystem, total size against the limit, validation of
every assertion, and only then the datastore write -/
theorem tie_cmd :
    Gen.Assertions.cmdCalls =
      ["w.datastore.ReadAuthorizationModel", "typesystem.IsSchemaVersionSupported", "typesystem.New", "proto.Size",
       "validation.ValidateUserObjectRelation", "validation.ValidateTupleForWrite", "w.datastore.WriteAssertions"] ∧
    Gen.Assertions.cmdIfs.take 5 =
      ["err != nil", "errors.Is(err, storage.ErrNotFound)",
       "!typesystem.IsSchemaVersionSupported(model.GetSchemaVersion())", "err != nil",
       "assertionSizeInBytes > w.maxAssertionSizeInBytes"] ∧
    Gen.Assertions.cmdReturns.length = 9 ∧
    Gen.Assertions.cmdMaxBytes = 64000 := by decide

/-- the memory theorem for the separators the source uses today -/
theorem mem_fresh_source (h : List (Op A)) (s m : Bytes) (hs : bar ∉ s) (hb : BarFree h) :
    memRead Gen.Assertions.memReadSep (memRun Gen.Assertions.memWriteSep [] h) s m = lastWritten [] h s m := by
  obtain ⟨h1, h2, _⟩ := tie_mem_key
  rw [h1, h2]; exact mem_fresh h s m hs hb

/-! ## Non-vacuity -/

/-- a codec that round-trips: one byte per assertion -/
def toyCodec : Codec UInt8 := ⟨id, some⟩
example : toyCodec.RoundTrip := fun _ => rfl

def s1 : Bytes := [48, 49]
def s2 : Bytes := [48, 50]
def m1 : Bytes := [77]
def toyHist : List (Op UInt8) :=
  [.write s1 m1 [1, 2], .write s2 m1 [3], .read s1 m1, .write s1 m1 [4], .deleteStore s1, .write s2 m1 []]

example : BarFree toyHist := by
  intro s m as hm
  simp [toyHist, s1, s2] at hm
  rcases hm with ⟨rfl, _⟩ | ⟨rfl, _⟩ | ⟨rfl, _⟩ | ⟨rfl, _⟩ <;> decide
example : memRead [bar] (memRun [bar] [] toyHist) s1 m1 = [4] := by rfl
example : sqlRead toyCodec (sqlRun toyCodec [] toyHist) s1 m1 = some [4] := by rfl
example : sqlRead toyCodec (sqlRun toyCodec [] toyHist) s2 m1 = some [] := by rfl
example : lastWritten [] toyHist s1 [78] = ([] : List UInt8) := by rfl

/-! ## The model a (store, model id) pair is resolved to

WriteAssertions / ReadAssertions resolve the model of the pair they were given through the typesystem resolver, which
shares datastore reads between overlapping requests by a singleflight key.  The key expressions are regenerated from
pkg/typesystem/resolver.go on every run (`Gen.ResolverKeys`); `Props/ResolverKeys.lean` proves the resolver exact for every
schedule from exactly these keys. -/

/-- every singleflight key mentions every argument of the datastore call it shares — the by-id key carries BOTH the store
and the model id — and so do both model caches -/
theorem tie_resolver_keys_carry_store_and_model :
    Gen.ResolverKeys.flightKeys.all OpenFGAVerif.Model.Resolver.keyCoversCall = true ∧
    OpenFGAVerif.Model.Resolver.argsOf OpenFGAVerif.Model.Resolver.readKeyPieces = ["storeID", "modelID"] ∧
    Gen.ResolverKeys.cacheKeys.all (fun c => c.2.contains "storeID" && c.2.contains "modelID") = true := by decide

/-- **the pair is resolved to its own model**: for every schedule of overlapping resolutions, a request for (store, model)
is answered with the datastore's model for exactly that pair — never with another model of the same store that happens to be
in flight, never with another store's -/
theorem pair_resolved_exactly (byId : OpenFGAVerif.Model.Resolver.Bytes → OpenFGAVerif.Model.Resolver.Bytes → Option Nat)
    (latest : OpenFGAVerif.Model.Resolver.Bytes → Option Nat) (evs : List (OpenFGAVerif.Model.Resolver.Ev OpenFGAVerif.Model.Resolver.Req))
    (hall : ∀ r, OpenFGAVerif.Model.Resolver.Ev.arrive r ∈ evs → ResolverKeys.SlashFree r) :
    ∀ out ∈ (OpenFGAVerif.Model.Resolver.run OpenFGAVerif.Model.Resolver.groupKey (ResolverKeys.dsOf byId latest)
        OpenFGAVerif.Model.Resolver.memoById
        (OpenFGAVerif.Model.Resolver.empty : OpenFGAVerif.Model.Resolver.St OpenFGAVerif.Model.Resolver.Bytes OpenFGAVerif.Model.Resolver.Req Nat) evs).2,
      out.2 = ResolverKeys.dsOf byId latest out.1 :=
  ResolverKeys.resolve_exact byId latest evs hall

/-- contrast: a key without the model id answers a request for model m′ with the model m that is in flight -/
theorem resolver_key_without_model_id_mixes_models :
    ((OpenFGAVerif.Model.Resolver.run ResolverKeys.keyDropModel ResolverKeys.dsW (fun _ => true)
        (OpenFGAVerif.Model.Resolver.empty : OpenFGAVerif.Model.Resolver.St OpenFGAVerif.Model.Resolver.Bytes OpenFGAVerif.Model.Resolver.Req Nat)
        [.arrive ⟨[1], [10]⟩, .arrive ⟨[1], [11]⟩, .finish 0, .arrive ⟨[1], [11]⟩]).2.map (·.2) = [some 100, some 100, some 100]) ∧
    ResolverKeys.dsW ⟨[1], [11]⟩ = some 101 :=
  ResolverKeys.drop_model_leaks

/-! ## sqlite `busyRetry`: a write reports success only if the statement ran -/

/-- outcome of one attempt of the wrapped statement -/
inductive Attempt where
  | done | busy | failed
  deriving DecidableEq, Repr

/-- `busyRetry(fn)`: attempts in order; `nil` on the first success, a non-busy error at once, the busy error once
`maxRetries` retries are used up.  `some true` = the function returned nil; `none` = the attempt list ran out. -/
def busyRetry : Nat → List Attempt → Option Bool
  | _, [] => none
  | _, .done :: _ => some true
  | _, .failed :: _ => some false
  | 0, .busy :: _ => some false
  | n + 1, .busy :: rest => busyRetry n rest

/-- **Reported success implies an applied statement**: when `busyRetry` returns nil some attempt succeeded and
every earlier attempt was a busy error — for every retry budget and every sequence of outcomes. -/
theorem busyRetry_success_sound (n : Nat) (xs : List Attempt) (h : busyRetry n xs = some true) :
    ∃ k : Nat, xs[k]? = some Attempt.done ∧ ∀ j : Nat, j < k → xs[j]? = some Attempt.busy := by
  induction xs generalizing n with
  | nil => simp [busyRetry] at h
  | cons a rest ih =>
    cases a with
    | done => exact ⟨0, by simp, by intro j hj; omega⟩
    | failed => simp [busyRetry] at h
    | busy =>
      cases n with
      | zero => simp [busyRetry] at h
      | succ n =>
        simp only [busyRetry] at h
        obtain ⟨k, hk, hb⟩ := ih n h
        refine ⟨k + 1, by simpa using hk, ?_⟩
        intro j hj
        cases j with
        | zero => simp
        | succ j => simpa using hb j (by omega)

/-- an all-busy run never reports success -/
theorem busyRetry_all_busy (n : Nat) (xs : List Attempt) (hb : ∀ a ∈ xs, a = Attempt.busy) : busyRetry n xs ≠ some true := by
  intro h
  obtain ⟨k, hk, _⟩ := busyRetry_success_sound n xs h
  have := hb _ (List.mem_of_getElem? hk)
  cases this

example : busyRetry 10 [.busy, .busy, .done] = some true ∧ busyRetry 1 [.busy, .busy, .done] = some false
    ∧ busyRetry 10 (List.replicate 11 .busy) = some false := by decide

def expectedBusyRetryBody : String :=
  "{ const maxRetries = 10 for retries := 0; ; retries++ { err := fn() if err == nil { return nil } if isBusyError(err) { if retries < maxRetries { continue } return fmt.Errorf(\"sqlite busy error after %d retries: %w\", maxRetries, err) } return err } }"

set_option maxRecDepth 100000 in
/-- the control skeleton of sqlite.busyRetry is the one `busyRetry` models (nil only from `err == nil`) -/
theorem tie_busy_retry : (Gen.Assertions.sqliteBusyRetryBody == expectedBusyRetryBody) = true := by decide

end OpenFGAVerif.C31
