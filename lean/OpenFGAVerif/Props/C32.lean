/-
C32 — AuthZEN endpoints agree with the native API.

Theorems about `Model.Authzen` (the mapping coded in pkg/server/authzen.go), for an **arbitrary** native
API (`Native`: any `check`, `batchCheck`, `listUsers`, `streamedListObjects`), arbitrary property values
and arbitrary strings:

* `mergeMap_lookup` / `context_wins` / `subject_property_visible` …: the merged context is "last assignment
  wins" over subject_, resource_, action_ properties and then the request context; the three prefixes never
  collide with each other, so only the request context can shadow a property;
* `evaluation_eq_check`: an Evaluation is the native Check of the mapped request (decision and error alike);
* `shortCircuit_eq_takeThrough`, `evaluateAll_semantics`, `evaluations_*`: batch semantics — each item is the
  single evaluation of the item with the top-level defaults applied, order preserved, the short-circuit
  variants cut the list right after the first deny (error = deny) / first permit;
* `pair_injective` (+ `pair_not_injective`): `type:id` is injective exactly when the type has no ':';
  validated requests have none (`validName_no_colon`, `build_injective`);
* `resourceSearch_exact`, `subjectSearch_exact`, `actionSearch_mem`: the searches return the native results
  (objects cut at the first ':', users without usersets, allowed relations).

The delegated engines themselves are C01 / C05 / C06 / C07; here `batchCheck` agreeing with `check` is the
explicit hypothesis `BatchPointwise`.
-/
import OpenFGAVerif.Model.Authzen
import OpenFGAVerif.Gen.Authzen

namespace OpenFGAVerif.C32
open OpenFGAVerif.Model.Authzen

variable {V : Type}

deriving instance DecidableEq for Except

/-! ## the merged context -/

theorem list_rev_ind {α : Type} {P : List α → Prop} (nil : P []) (snoc : ∀ l a, P l → P (l ++ [a])) :
    ∀ l, P l := by
  intro l
  rw [← List.reverse_reverse l]
  induction l.reverse with
  | nil => exact nil
  | cons a t ih => rw [List.reverse_cons]; exact snoc _ _ ih

theorem lookup_nil (k : String) : lookup ([] : Struct V) k = none := rfl

theorem lookup_cons (e : String × V) (m : Struct V) (k : String) :
    lookup (e :: m) k = if e.1 = k then some e.2 else lookup m k := by
  unfold lookup
  by_cases h : e.1 = k <;> simp [List.find?_cons, h]

theorem lookup_append (a b : Struct V) (k : String) : lookup (a ++ b) k = (lookup a k).orElse (fun _ => lookup b k) := by
  induction a with
  | nil => simp [lookup_nil]
  | cons e a ih =>
    rw [List.cons_append, lookup_cons, lookup_cons]
    by_cases h : e.1 = k
    · simp [h]
    · simp [h, ih]

theorem lookup_filter_ne (m : Struct V) (k k' : String) (h : k' ≠ k) :
    lookup (m.filter (fun e => e.1 ≠ k)) k' = lookup m k' := by
  induction m with
  | nil => rfl
  | cons e m ih =>
    by_cases hk : e.1 = k
    · have hf : (e :: m).filter (fun e => e.1 ≠ k) = m.filter (fun e => e.1 ≠ k) :=
        List.filter_cons_of_neg (by simp [hk])
      rw [hf, ih, lookup_cons, if_neg (by rw [hk]; exact Ne.symm h)]
    · have hf : (e :: m).filter (fun e => e.1 ≠ k) = e :: m.filter (fun e => e.1 ≠ k) :=
        List.filter_cons_of_pos (by simp [hk])
      rw [hf, lookup_cons, lookup_cons, ih]

/-- Go map assignment -/
theorem lookup_assign (k : String) (v : V) (m : Struct V) (k' : String) :
    lookup (assign k v m) k' = if k = k' then some v else lookup m k' := by
  unfold assign
  rw [lookup_cons]
  by_cases h : k = k'
  · simp [h]
  · rw [if_neg h, if_neg h, lookup_filter_ne m k k' (Ne.symm h)]

theorem getLast_nil (k : String) : getLast ([] : Struct V) k = none := rfl

theorem getLast_append (a b : Struct V) (k : String) :
    getLast (a ++ b) k = (getLast b k).orElse (fun _ => getLast a k) := by
  unfold getLast
  rw [List.reverse_append, lookup_append]

theorem getLast_concat (a : Struct V) (e : String × V) (k : String) :
    getLast (a ++ [e]) k = if e.1 = k then some e.2 else getLast a k := by
  rw [getLast_append]
  unfold getLast
  simp only [List.reverse_cons, List.reverse_nil, List.nil_append]
  rw [lookup_cons]
  by_cases h : e.1 = k <;> simp [h, lookup_nil]

/-- a loop of map assignments leaves, for every key, the last assigned value, else what was there -/
theorem lookup_foldl_assign (pre : String) (s : Struct V) (acc : Struct V) (k : String) :
    lookup (s.foldl (fun acc e => assign (pre ++ e.1) e.2 acc) acc) k =
      (getLast (s.map (fun e => (pre ++ e.1, e.2))) k).orElse (fun _ => lookup acc k) := by
  induction s using list_rev_ind generalizing acc with
  | nil => simp [getLast_nil]
  | snoc s e ih =>
    rw [List.foldl_append, List.map_append]
    simp only [List.foldl_cons, List.foldl_nil, List.map_cons, List.map_nil]
    rw [lookup_assign, getLast_concat]
    by_cases h : pre ++ e.1 = k
    · simp [h]
    · simp [h, ih]

theorem lookup_mergeStep (pre : String) (src : Option (Struct V)) (acc : Struct V) (k : String) :
    lookup (mergeStep pre src acc) k =
      (getLast ((src.getD []).map (fun e => (pre ++ e.1, e.2))) k).orElse (fun _ => lookup acc k) := by
  cases src with
  | none => simp [mergeStep, getLast_nil]
  | some s => simp only [mergeStep, Option.getD_some]; exact lookup_foldl_assign pre s acc k

/-- **Merge semantics**: the merged context maps every key to the value of the *last* assignment in the
order subject properties, resource properties, action properties, request context. -/
theorem mergeMap_lookup (ctx subj res act : Option (Struct V)) (k : String) :
    lookup (mergeMap ctx subj res act) k = getLast (entries ctx subj res act) k := by
  unfold mergeMap entries
  simp only [lookup_mergeStep, getLast_append, lookup_nil]
  cases getLast (List.map (fun e => ("" ++ e.fst, e.snd)) (ctx.getD [])) k <;>
  cases getLast (List.map (fun e => (actionPrefix ++ e.fst, e.snd)) (act.getD [])) k <;>
  cases getLast (List.map (fun e => (resourcePrefix ++ e.fst, e.snd)) (res.getD [])) k <;>
  cases getLast (List.map (fun e => (subjectPrefix ++ e.fst, e.snd)) (subj.getD [])) k <;> rfl

theorem getLast_map_empty_prefix (s : Struct V) (k : String) :
    getLast (s.map (fun e => ("" ++ e.1, e.2))) k = getLast s k := by
  have : s.map (fun e => (("" : String) ++ e.1, e.2)) = s := by
    induction s with
    | nil => rfl
    | cons e s ih => simp [ih]
  rw [this]

/-- looking a prefixed key up in a prefixed struct is looking the bare key up in the struct -/
theorem getLast_map_prefix (pre : String) (s : Struct V) (k : String) :
    getLast (s.map (fun e => (pre ++ e.1, e.2))) (pre ++ k) = getLast s k := by
  induction s using list_rev_ind with
  | nil => rfl
  | snoc s e ih =>
    rw [List.map_append]
    simp only [List.map_cons, List.map_nil]
    rw [getLast_concat, getLast_concat, ih]
    have : (pre ++ e.1 = pre ++ k) ↔ e.1 = k := by
      constructor
      · intro h
        have := congrArg String.toList h
        simp only [String.toList_append, List.append_cancel_left_eq] at this
        exact String.toList_inj.mp this
      · intro h; rw [h]
    by_cases h : e.1 = k
    · simp [h]
    · simp [h, this]

/-- a key that does not start with the prefix is not in the prefixed struct -/
theorem getLast_map_prefix_none (pre : String) (s : Struct V) (k : String)
    (h : ∀ k', pre ++ k' ≠ k) : getLast (s.map (fun e => (pre ++ e.1, e.2))) k = none := by
  induction s using list_rev_ind with
  | nil => rfl
  | snoc s e ih =>
    rw [List.map_append]
    simp only [List.map_cons, List.map_nil]
    rw [getLast_concat, ih]
    simp [h e.1]

theorem prefix_disjoint (p q : String) (a b : String) (c d : Char) (ps qs : List Char)
    (hp : p.toList = c :: ps) (hq : q.toList = d :: qs) (hcd : c ≠ d) : p ++ a ≠ q ++ b := by
  intro h
  have := congrArg String.toList h
  simp only [String.toList_append, hp, hq, List.cons_append] at this
  exact hcd (List.cons.inj this).1

theorem subject_ne_resource (a b : String) : subjectPrefix ++ a ≠ resourcePrefix ++ b :=
  prefix_disjoint _ _ a b 's' 'r' "ubject_".toList "esource_".toList (by decide) (by decide) (by decide)
theorem subject_ne_action (a b : String) : subjectPrefix ++ a ≠ actionPrefix ++ b :=
  prefix_disjoint _ _ a b 's' 'a' "ubject_".toList "ction_".toList (by decide) (by decide) (by decide)
theorem resource_ne_action (a b : String) : resourcePrefix ++ a ≠ actionPrefix ++ b :=
  prefix_disjoint _ _ a b 'r' 'a' "esource_".toList "ction_".toList (by decide) (by decide) (by decide)

/-- **Precedence 1**: a key of the request context always wins. -/
theorem context_wins (ctx : Struct V) (subj res act : Option (Struct V)) (k : String) (v : V)
    (h : getLast ctx k = some v) : lookup (mergeMap (some ctx) subj res act) k = some v := by
  rw [mergeMap_lookup]
  unfold entries
  simp only [getLast_append, Option.getD_some, getLast_map_empty_prefix, h]
  rfl

/-- **Precedence 2**: a subject property `k` is visible as `subject_k` unless the request context defines
`subject_k` itself; resource and action properties can never shadow it. -/
theorem subject_property_visible (ctx subj res act : Option (Struct V)) (k : String)
    (h : getLast (ctx.getD []) (subjectPrefix ++ k) = none) :
    lookup (mergeMap ctx subj res act) (subjectPrefix ++ k) = getLast (subj.getD []) k := by
  rw [mergeMap_lookup]
  unfold entries
  simp only [getLast_append, getLast_map_empty_prefix, h]
  rw [getLast_map_prefix_none actionPrefix _ _ (fun k' e => subject_ne_action k k' e.symm),
      getLast_map_prefix_none resourcePrefix _ _ (fun k' e => subject_ne_resource k k' e.symm),
      getLast_map_prefix]
  rfl

theorem resource_property_visible (ctx subj res act : Option (Struct V)) (k : String)
    (h : getLast (ctx.getD []) (resourcePrefix ++ k) = none) :
    lookup (mergeMap ctx subj res act) (resourcePrefix ++ k) = getLast (res.getD []) k := by
  rw [mergeMap_lookup]
  unfold entries
  simp only [getLast_append, getLast_map_empty_prefix, h]
  rw [getLast_map_prefix_none actionPrefix _ _ (fun k' e => resource_ne_action k k' e.symm),
      getLast_map_prefix]
  cases getLast (res.getD []) k <;> simp [Option.orElse]
  exact getLast_map_prefix_none subjectPrefix _ _ (fun k' e => subject_ne_resource k' k e)

theorem action_property_visible (ctx subj res act : Option (Struct V)) (k : String)
    (h : getLast (ctx.getD []) (actionPrefix ++ k) = none) :
    lookup (mergeMap ctx subj res act) (actionPrefix ++ k) = getLast (act.getD []) k := by
  rw [mergeMap_lookup]
  unfold entries
  simp only [getLast_append, getLast_map_empty_prefix, h]
  rw [getLast_map_prefix]
  cases getLast (act.getD []) k <;> simp [Option.orElse]
  rw [getLast_map_prefix_none resourcePrefix _ _ (fun k' e => resource_ne_action k' k e),
      getLast_map_prefix_none subjectPrefix _ _ (fun k' e => subject_ne_action k' k e)]

/-- the order of the three property sources is immaterial (their key spaces are disjoint): only "request
context last" matters.  Stated for the lookup of an arbitrary key. -/
theorem orElse_reorder (c a r s : Option V)
    (h : (r = none ∧ s = none) ∨ (a = none ∧ s = none) ∨ (a = none ∧ r = none)) :
    (c.orElse fun _ => a.orElse fun _ => r.orElse fun _ => s.orElse fun _ => none) =
    (c.orElse fun _ => s.orElse fun _ => r.orElse fun _ => a.orElse fun _ => none) := by
  rcases h with ⟨h1, h2⟩ | ⟨h1, h2⟩ | ⟨h1, h2⟩ <;> subst h1 <;> subst h2 <;> cases c <;>
    first | rfl | (cases a <;> rfl) | (cases r <;> rfl) | (cases s <;> rfl)

theorem property_order_irrelevant (ctx subj res act : Option (Struct V)) (k : String) :
    lookup (mergeMap ctx subj res act) k =
      lookup (mergeStep "" ctx (mergeStep subjectPrefix subj (mergeStep resourcePrefix res (mergeStep actionPrefix act [])))) k := by
  unfold mergeMap
  simp only [lookup_mergeStep, lookup_nil]
  apply orElse_reorder
  -- at most one of the three prefixed structs defines `k`
  by_cases h1 : ∃ k', actionPrefix ++ k' = k
  · obtain ⟨k', rfl⟩ := h1
    exact Or.inl ⟨getLast_map_prefix_none _ _ _ (fun k'' e => resource_ne_action k'' k' e),
                  getLast_map_prefix_none _ _ _ (fun k'' e => subject_ne_action k'' k' e)⟩
  · have ha := getLast_map_prefix_none actionPrefix (act.getD []) k (fun k' e => h1 ⟨k', e⟩)
    by_cases h2 : ∃ k', resourcePrefix ++ k' = k
    · obtain ⟨k', rfl⟩ := h2
      exact Or.inr (Or.inl ⟨ha, getLast_map_prefix_none _ _ _ (fun k'' e => subject_ne_resource k'' k' e)⟩)
    · exact Or.inr (Or.inr ⟨ha, getLast_map_prefix_none resourcePrefix (res.getD []) k (fun k' e => h2 ⟨k', e⟩)⟩)

/-- `len(merged) == 0 ⇒ nil`: the mapped context is nil exactly when nothing was assigned -/
theorem merge_none_iff (ctx subj res act : Option (Struct V)) :
    merge ctx subj res act = none ↔ mergeMap ctx subj res act = [] := by
  unfold merge
  cases h : mergeMap ctx subj res act <;> simp

/-! ## Evaluation = native Check of the mapped request -/

/-- the mapped request of an evaluation (the object of the property statement) -/
def mapped (s r : Entity V) (a : Action V) (ctx : Option (Struct V)) : CheckReq V :=
  { user := pair s.typ s.id, rel := a.name, obj := pair r.typ r.id, ctx := merge ctx s.props r.props a.props }

theorem build_some (s r : Entity V) (a : Action V) (ctx : Option (Struct V)) :
    build (some s) (some r) (some a) ctx = .ok (mapped s r a ctx) := rfl

/-- **C32 (single).** For every native `check`: a validated Evaluation returns exactly what the native Check
returns on the mapped request — `decision = allowed`, and an error of Check is the error of the Evaluation. -/
theorem evaluation_eq_check (N : Native V) (s r : Entity V) (a : Action V) (ctx : Option (Struct V))
    (hv : (validSubject s && validResource r && validAction a) = true) :
    evaluation N (some s) (some r) (some a) ctx = (N.check (mapped s r a ctx)).toExcept := by
  simp only [evaluation, hv, if_true, evaluationCore, build_some]

theorem evaluation_decision (N : Native V) (s r : Entity V) (a : Action V) (ctx : Option (Struct V))
    (hv : (validSubject s && validResource r && validAction a) = true) (b : Bool) :
    evaluation N (some s) (some r) (some a) ctx = .ok b ↔
      (N.check (mapped s r a ctx) = if b then .allow else .deny) := by
  rw [evaluation_eq_check N s r a ctx hv]
  cases h : N.check (mapped s r a ctx) <;> cases b <;> simp [Res.toExcept]

/-- requests the validator rejects never reach the native API -/
theorem evaluation_invalid (N : Native V) (s r : Entity V) (a : Action V) (ctx : Option (Struct V))
    (hv : (validSubject s && validResource r && validAction a) = false) :
    evaluation N (some s) (some r) (some a) ctx = .error invalidArgument := by
  simp [evaluation, hv]

/-! ## batch semantics -/

/-- elements up to and including the first one satisfying `p` -/
def takeThrough {α : Type} (p : α → Bool) : List α → List α
  | [] => []
  | a :: as => if p a then [a] else a :: takeThrough p as

/-- **Short-circuit semantics.** The response list is the list of single evaluations (each item with the
top-level defaults applied, in order) cut right after the first response on which the loop breaks. -/
theorem shortCircuit_eq_takeThrough (N : Native V) (sem : Nat) (top : Item V) (items : List (Item V)) :
    shortCircuit N sem top items = takeThrough (stops sem) (items.map (single N top)) := by
  induction items with
  | nil => rfl
  | cons it rest ih =>
    simp only [shortCircuit, List.map_cons, takeThrough]
    split <;> simp [ih]

theorem takeThrough_prefix {α : Type} (p : α → Bool) (l : List α) :
    ∃ n, takeThrough p l = l.take n ∧ (n ≤ l.length) := by
  induction l with
  | nil => exact ⟨0, rfl, Nat.le_refl _⟩
  | cons a as ih =>
    simp only [takeThrough]
    split
    · exact ⟨1, by simp, by simp⟩
    · obtain ⟨n, hn, hl⟩ := ih
      exact ⟨n + 1, by simp [hn], by simp [hl]⟩

/-- order preserved: response `i` (if present) is the single evaluation of item `i` -/
theorem shortCircuit_getElem (N : Native V) (sem : Nat) (top : Item V) (items : List (Item V)) (i : Nat)
    (h : i < (shortCircuit N sem top items).length) :
    ∃ h' : i < items.length, (shortCircuit N sem top items)[i] = single N top items[i] := by
  rw [shortCircuit_eq_takeThrough] at h
  obtain ⟨n, hn, _⟩ := takeThrough_prefix (stops sem) (items.map (single N top))
  have hlen : i < ((items.map (single N top)).take n).length := by rw [← hn]; exact h
  have hi : i < items.length := by
    have h1 := List.length_take_le' n (items.map (single N top))
    rw [List.length_map] at h1
    omega
  refine ⟨hi, ?_⟩
  have e : (shortCircuit N sem top items)[i]? = ((items.map (single N top)).take n)[i]? := by
    rw [shortCircuit_eq_takeThrough, hn]
  have hs : i < (shortCircuit N sem top items).length := by rw [shortCircuit_eq_takeThrough]; exact h
  rw [List.getElem?_eq_getElem hs, List.getElem?_eq_getElem hlen] at e
  have := Option.some.inj e
  rw [this, List.getElem_take, List.getElem_map]

/-- nothing is evaluated after the first response on which the loop breaks: every response but the last one
does not stop -/
theorem takeThrough_init_not_stop {α : Type} (p : α → Bool) (l : List α) (i : Nat)
    (h : i + 1 < (takeThrough p l).length) : p ((takeThrough p l)[i]'(by omega)) = false := by
  induction l generalizing i with
  | nil => simp [takeThrough] at h
  | cons a as ih =>
    by_cases hp : p a
    · simp [takeThrough, hp] at h
    · have hpf : p a = false := by simpa using hp
      have e : takeThrough p (a :: as) = a :: takeThrough p as := by simp [takeThrough, hpf]
      cases i with
      | zero => simp [e, hpf]
      | succ j =>
        have h' : j + 1 < (takeThrough p as).length := by rw [e] at h; simpa using h
        simp only [e, List.getElem_cons_succ]
        exact ih j h'

/-- … and if no response stops the loop, every item is answered -/
theorem takeThrough_all {α : Type} (p : α → Bool) (l : List α) (h : ∀ a ∈ l, p a = false) :
    takeThrough p l = l := by
  induction l with
  | nil => rfl
  | cons a as ih =>
    have ha : p a = false := h a (by simp)
    simp only [takeThrough, ha]
    rw [ih (fun b hb => h b (by simp [hb]))]
    simp

/-- deny_on_first_deny: a response stops iff it is not an allowed decision (errors count as deny) -/
theorem stops_deny (r : ItemResp) : stops denyOnFirstDeny r = !r.allowed := by
  cases r with
  | decision b => cases b <;> decide
  | error h => simp [stops, ItemResp.allowed]

/-- permit_on_first_permit: a response stops iff it is an allowed decision (errors go on) -/
theorem stops_permit (r : ItemResp) : stops permitOnFirstPermit r = r.allowed := by
  cases r with
  | decision b => cases b <;> decide
  | error h => simp [stops, ItemResp.allowed, permitOnFirstPermit, denyOnFirstDeny]

/-- `batchCheck` answers item `i` as `check` does (this is property C07; here a hypothesis) -/
def agrees : Res → Option BatchRes → Prop
  | .allow, r => r = some (.allowed true)
  | .deny, r => r = some (.allowed false)
  | .err _ _, r => (∃ h, r = some (.inputErr h)) ∨ r = some .internalErr

def BatchPointwise (N : Native V) (rqs : List (CheckReq V)) (f : Nat → Option BatchRes) : Prop :=
  ∀ i (h : i < rqs.length), agrees (N.check rqs[i]) (f i)

theorem buildAll_ok (top : Item V) (items : List (Item V)) (rqs : List (CheckReq V))
    (h : buildAll top items = .ok rqs) :
    rqs.length = items.length ∧ ∀ i (h1 : i < items.length) (h2 : i < rqs.length), buildItem top items[i] = .ok rqs[i] := by
  induction items generalizing rqs with
  | nil => simp [buildAll] at h; subst h; simp
  | cons it rest ih =>
    simp only [buildAll] at h
    cases hb : buildItem top it with
    | error e => simp [hb] at h
    | ok rq =>
      simp only [hb] at h
      cases hr : buildAll top rest with
      | error e => simp [hr] at h
      | ok rqs' =>
        simp only [hr] at h
        have := Except.ok.inj h
        subst this
        obtain ⟨hl, hi⟩ := ih rqs' hr
        refine ⟨by simp [hl], ?_⟩
        intro i h1 h2
        cases i with
        | zero => simpa using hb
        | succ j => simpa using hi j (by simpa using h1) (by simpa using h2)

/-- if an item lacks a subject, resource or action (after defaults), execute_all fails the whole request -/
theorem buildAll_error (top : Item V) (items : List (Item V)) (it : Item V) (e : BuildErr)
    (hm : it ∈ items) (hb : buildItem top it = .error e) : buildAll top items = .error invalidArgument := by
  induction items with
  | nil => cases hm
  | cons a rest ih =>
    simp only [buildAll]
    rcases List.mem_cons.mp hm with rfl | hr
    · simp [hb]
    · cases ha : buildItem top a with
      | error e' => rfl
      | ok rq => simp [ih hr]

/-- **execute_all semantics.** Provided BatchCheck answers each item like Check, the response list has one
entry per item, in order, and entry `i` carries the decision of the single evaluation of item `i` with the
defaults applied (an error of that Check gives `decision = false`). -/
theorem evaluateAll_semantics (N : Native V) (top : Item V) (items : List (Item V)) (rqs : List (CheckReq V))
    (f : Nat → Option BatchRes)
    (hb : buildAll top items = .ok rqs) (hf : N.batchCheck rqs = .ok f) (hp : BatchPointwise N rqs f) :
    ∃ l, evaluateAll N top items = .ok l ∧ l.length = items.length ∧
      ∀ i (h1 : i < items.length) (h2 : i < l.length), l[i].allowed = (single N top items[i]).allowed := by
  refine ⟨(List.range items.length).map (fun i => ofBatch (f i)), ?_, by simp, ?_⟩
  · simp [evaluateAll, hb, hf]
  · intro i h1 h2
    obtain ⟨hl, hi⟩ := buildAll_ok top items rqs hb
    have hi' := hi i h1 (by omega)
    have ha := hp i (by omega)
    simp only [List.getElem_map, List.getElem_range, single, hi']
    cases hc : N.check rqs[i] with
    | allow => rw [hc] at ha; simp only [agrees] at ha; simp [ha, ofBatch, ItemResp.allowed]
    | deny => rw [hc] at ha; simp only [agrees] at ha; simp [ha, ofBatch, ItemResp.allowed]
    | err c h =>
      rw [hc] at ha; simp only [agrees] at ha
      rcases ha with ⟨h', e⟩ | e <;> simp [e, ofBatch, ItemResp.allowed]

/-- an empty evaluations list behaves like a single Evaluation of the top-level fields -/
theorem evaluations_empty (N : Native V) (top : Item V) (sem : Option Nat)
    (hv : validEvals { top := top, items := [], semantic := sem } = true) :
    evaluations N { top := top, items := [], semantic := sem } =
      (evaluation N top.subject top.resource top.action top.context).map (fun b => [.decision b]) := by
  simp only [evaluations, hv, Bool.not_true, Bool.false_eq_true, if_false, List.isEmpty_nil, if_true]
  cases evaluation N top.subject top.resource top.action top.context <;> rfl

/-- no options message = execute_all -/
theorem evaluations_default_semantic (N : Native V) (top : Item V) (items : List (Item V)) :
    evaluations N { top := top, items := items, semantic := none } =
      evaluations N { top := top, items := items, semantic := some execAll } := by
  simp [evaluations, validEvals, optAll, execAll]

/-- the dispatch on the semantic, for a non-empty validated batch -/
theorem evaluations_dispatch (N : Native V) (top : Item V) (it : Item V) (items : List (Item V)) (sem : Nat)
    (hv : validEvals { top := top, items := it :: items, semantic := some sem } = true) :
    evaluations N { top := top, items := it :: items, semantic := some sem } =
      if sem = denyOnFirstDeny ∨ sem = permitOnFirstPermit then .ok (shortCircuit N sem top (it :: items))
      else evaluateAll N top (it :: items) := by
  have hs : sem ≤ 2 := by
    simp only [validEvals, optAll, Bool.and_eq_true, decide_eq_true_eq] at hv
    exact hv.2
  simp only [evaluations, hv, Bool.not_true, Bool.false_eq_true, if_false, List.isEmpty_cons, Option.getD_some]
  have : ¬ (sem ≠ execAll ∧ sem ≠ denyOnFirstDeny ∧ sem ≠ permitOnFirstPermit) := by
    simp only [execAll, denyOnFirstDeny, permitOnFirstPermit]; omega
  simp [this]

/-! ## injectivity of the tuple-key formatting -/

theorem pair_toList (t i : String) : (pair t i).toList = t.toList ++ ':' :: i.toList := by
  unfold pair
  simp [String.toList_append]

theorem cutColon_append (t i : List Char) (h : ':' ∉ t) : cutColon (t ++ ':' :: i) = some (t, i) := by
  induction t with
  | nil => simp [cutColon]
  | cons c cs ih =>
    have hc : c ≠ ':' := fun e => h (by simp [e])
    have hcs : ':' ∉ cs := fun e => h (by simp [e])
    simp [cutColon, hc, ih hcs]

/-- **Injectivity.** `type:id` determines type and id provided the *types* contain no ':' (ids may). -/
theorem pair_injective (t1 i1 t2 i2 : String) (h1 : ':' ∉ t1.toList) (h2 : ':' ∉ t2.toList)
    (h : pair t1 i1 = pair t2 i2) : t1 = t2 ∧ i1 = i2 := by
  have e := congrArg String.toList h
  rw [pair_toList, pair_toList] at e
  have c1 := cutColon_append t1.toList i1.toList h1
  have c2 := cutColon_append t2.toList i2.toList h2
  rw [e, c2] at c1
  have := Option.some.inj c1
  exact ⟨String.toList_inj.mp (Prod.mk.inj this).1.symm, String.toList_inj.mp (Prod.mk.inj this).2.symm⟩

/-- … and without that proviso it does not: two different (type, id) pairs with the same tuple-key string -/
theorem pair_not_injective : pair "a:b" "c" = pair "a" "b:c" ∧ ("a:b", "c") ≠ (("a", "b:c") : String × String) := by
  decide

theorem validName_no_colon (n : Nat) (s : String) (h : validName n s = true) : ':' ∉ s.toList := by
  intro hm
  simp only [validName, Bool.and_eq_true, List.all_eq_true] at h
  have := h.2 ':' hm
  simp at this

/-- validated evaluations with the same mapped tuple key have the same subject, resource and action -/
theorem build_injective (s1 r1 s2 r2 : Entity V) (a1 a2 : Action V) (c1 c2 : Option (Struct V))
    (v1 : (validSubject s1 && validResource r1 && validAction a1) = true)
    (v2 : (validSubject s2 && validResource r2 && validAction a2) = true)
    (hu : (mapped s1 r1 a1 c1).user = (mapped s2 r2 a2 c2).user)
    (hr : (mapped s1 r1 a1 c1).rel = (mapped s2 r2 a2 c2).rel)
    (ho : (mapped s1 r1 a1 c1).obj = (mapped s2 r2 a2 c2).obj) :
    (s1.typ = s2.typ ∧ s1.id = s2.id) ∧ (r1.typ = r2.typ ∧ r1.id = r2.id) ∧ a1.name = a2.name := by
  simp only [validSubject, validResource, Bool.and_eq_true] at v1 v2
  exact ⟨pair_injective _ _ _ _ (validName_no_colon _ _ v1.1.1.1) (validName_no_colon _ _ v2.1.1.1) hu,
         pair_injective _ _ _ _ (validName_no_colon _ _ v1.1.2.1) (validName_no_colon _ _ v2.1.2.1) ho, hr⟩

/-! ## searches -/

theorem cutObject_pair (t i : String) (h : ':' ∉ t.toList) : cutObject (pair t i) = some (t, i) := by
  unfold cutObject
  rw [pair_toList, cutColon_append _ _ h]
  simp [String.ofList_toList]

theorem filterMap_cutObject_pairs (ps : List (String × String)) (hc : ∀ p ∈ ps, ':' ∉ p.1.toList) :
    (ps.map (fun p => pair p.1 p.2)).filterMap cutObject = ps := by
  induction ps with
  | nil => rfl
  | cons p ps ih =>
    have hq : ∀ q ∈ ps, ':' ∉ q.1.toList := fun q hq => hc q (List.mem_cons_of_mem _ hq)
    simp only [List.map_cons, List.filterMap_cons, cutObject_pair p.1 p.2 (hc p (List.mem_cons_self ..))]
    rw [ih hq]

/-- **ResourceSearch = StreamedListObjects of the mapped request**: every object `type:id` the native call
streams comes back as the resource `(type, id)`, in order, nothing lost (object types have no ':'). -/
theorem resourceSearch_exact (N : Native V) (subj : Entity V) (act : Action V) (resType : String)
    (resProps ctx : Option (Struct V)) (ps : List (String × String))
    (hv : (validSubject subj && validAction act && validName 50 resType) = true)
    (hn : N.streamedListObjects (resourceSearchReq subj act resType resProps ctx) = .ok (ps.map (fun p => pair p.1 p.2)))
    (hc : ∀ p ∈ ps, ':' ∉ p.1.toList) :
    resourceSearch N subj act resType resProps ctx = .ok ps := by
  simp only [resourceSearch, hv, Bool.not_true, Bool.false_eq_true, if_false, hn]
  rw [filterMap_cutObject_pairs ps hc]

theorem resourceSearch_error (N : Native V) (subj : Entity V) (act : Action V) (resType : String)
    (resProps ctx : Option (Struct V)) (e : Nat)
    (hv : (validSubject subj && validAction act && validName 50 resType) = true)
    (hn : N.streamedListObjects (resourceSearchReq subj act resType resProps ctx) = .error e) :
    resourceSearch N subj act resType resProps ctx = .error e := by
  simp [resourceSearch, hv, hn]

/-- the user string of a ListUsers result -/
def userString : UserRes → String
  | .object t i => pair t i
  | .wildcard t => pair t "*"
  | .userset t i r => pair t i ++ "#" ++ r

theorem map_pair_subjectOf (us : List UserRes) (hu : ∀ u ∈ us, ∀ t i r, u ≠ .userset t i r) :
    (us.filterMap subjectOf).map (fun p => pair p.1 p.2) = us.map userString := by
  induction us with
  | nil => rfl
  | cons u us ih =>
    have := ih (fun v hv' => hu v (List.mem_cons_of_mem _ hv'))
    cases u with
    | object t i => simp [subjectOf, userString, this]
    | wildcard t => simp [subjectOf, userString, this]
    | userset t i r => exact absurd rfl (hu _ (List.mem_cons_self ..) t i r)

/-- **SubjectSearch = ListUsers of the mapped request**: when the native call returns objects and typed
wildcards only (it cannot return usersets: the filter carries no relation), the subjects are exactly the
native users, in order, with the same `type:id` strings. -/
theorem subjectSearch_exact (N : Native V) (subjType : String) (subjProps : Option (Struct V)) (res : Entity V)
    (act : Action V) (ctx : Option (Struct V)) (us : List UserRes)
    (hv : (validName 50 subjType && validResource res && validAction act) = true)
    (hn : N.listUsers (subjectSearchReq subjType subjProps res act ctx) = .ok us)
    (hu : ∀ u ∈ us, ∀ t i r, u ≠ .userset t i r) :
    ∃ l, subjectSearch N subjType subjProps res act ctx = .ok l ∧
      l.map (fun p => pair p.1 p.2) = us.map userString := by
  exact ⟨us.filterMap subjectOf, by simp [subjectSearch, hv, hn], map_pair_subjectOf us hu⟩

theorem insertName_perm (a : String) (l : List String) : (insertName a l).Perm (a :: l) := by
  induction l with
  | nil => exact List.Perm.refl _
  | cons b bs ih =>
    simp only [insertName]
    split
    · exact List.Perm.refl _
    · exact (List.Perm.cons b ih).trans (List.Perm.swap a b bs)

theorem sortNames_perm (l : List String) : (sortNames l).Perm l := by
  induction l with
  | nil => exact List.Perm.refl _
  | cons a as ih =>
    simp only [sortNames, List.foldr_cons]
    exact (insertName_perm a _).trans (List.Perm.cons a ih)

/-- **ActionSearch**: an action is returned iff it is a relation of the resource type whose batch result is
`allowed` (whatever order the relation map is iterated in); nothing else is returned. -/
theorem actionSearch_mem (N : Native V) (subj res : Entity V) (ctx : Option (Struct V)) (rels : List String)
    (f : Nat → Option BatchRes)
    (hv : (validSubject subj && validResource res) = true)
    (hr : N.relations res.typ = .ok rels)
    (hf : N.batchCheck (rels.map (actionCheckReq subj res ctx)) = .ok f) :
    ∃ l, actionSearch N subj res ctx = .ok l ∧
      ∀ name, name ∈ l ↔ ∃ i, rels[i]? = some name ∧ f i = some (.allowed true) := by
  refine ⟨sortNames (allowedNames rels f), by simp [actionSearch, hv, hr, hf], ?_⟩
  intro name
  rw [(sortNames_perm _).mem_iff]
  simp only [allowedNames, List.mem_filterMap, List.mem_range]
  constructor
  · rintro ⟨i, _, h⟩
    refine ⟨i, ?_⟩
    cases hfi : f i with
    | none => simp [hfi] at h
    | some b =>
      cases b with
      | allowed b => cases b <;> simp [hfi] at h ⊢; exact h
      | inputErr _ => simp [hfi] at h
      | internalErr => simp [hfi] at h
  · rintro ⟨i, h1, h2⟩
    refine ⟨i, ?_, by simp [h2, h1]⟩
    exact (List.getElem?_eq_some_iff.mp h1).1

/-! ## the authorization model id: every native request carries the one the header pins

`NativeM` = the native API with the model id of each call explicit; the endpoints `…H` take the header value
`hdr`.  The statements below say, for EVERY native API: what an endpoint answers is what the native API
answers FOR THE MODEL `hdr` (for ActionSearch: for the model `hdr` resolves to) — what the native API
would answer for any other model (in particular for "" = the latest model of the store) is irrelevant. -/

/-- **Evaluation**: the native Check of the mapped request AT the pinned model -/
theorem evaluation_model_pinned (N : NativeM V) (hdr : String) (s r : Entity V) (a : Action V) (ctx : Option (Struct V))
    (hv : (validSubject s && validResource r && validAction a) = true) :
    evaluationH N hdr (some s) (some r) (some a) ctx = (N.check hdr (mapped s r a ctx)).toExcept :=
  evaluation_eq_check (N.pinned hdr) s r a ctx hv

/-- **execute_all**: when BatchCheck AT the pinned model answers item-wise like Check AT the pinned model
(C07), entry `i` carries the decision of the native Check of item `i` AT the pinned model -/
theorem evaluateAll_model_pinned (N : NativeM V) (hdr : String) (top : Item V) (items : List (Item V))
    (rqs : List (CheckReq V)) (f : Nat → Option BatchRes)
    (hb : buildAll top items = .ok rqs) (hf : N.batchCheck hdr rqs = .ok f)
    (hp : ∀ i (h : i < rqs.length), agrees (N.check hdr rqs[i]) (f i)) :
    ∃ l, evaluateAllAt N hdr top items = .ok l ∧ l.length = items.length ∧
      ∀ i (h1 : i < items.length) (h2 : i < l.length),
        l[i].allowed = (single (N.pinned hdr) top items[i]).allowed :=
  evaluateAll_semantics (N.pinned hdr) top items rqs f hb hf hp

/-- **both short-circuit semantics**: the single evaluations AT the pinned model, cut after the first stop -/
theorem shortCircuit_model_pinned (N : NativeM V) (hdr : String) (sem : Nat) (top : Item V) (items : List (Item V)) :
    shortCircuit (N.pinned hdr) sem top items = takeThrough (stops sem) (items.map (single (N.pinned hdr) top)) :=
  shortCircuit_eq_takeThrough (N.pinned hdr) sem top items

/-- the Evaluations endpoint sends the header value with the BatchCheckRequest of execute_all -/
theorem evaluations_execAll_model_pinned (N : NativeM V) (hdr : String) (top it : Item V) (items : List (Item V))
    (hv : validEvals { top := top, items := it :: items, semantic := some execAll } = true) :
    evaluationsH N hdr { top := top, items := it :: items, semantic := some execAll } =
      evaluateAllAt N hdr top (it :: items) := by
  unfold evaluationsH evaluateAllAt
  rw [evaluations_dispatch (N.pinned hdr) top it items execAll hv]
  simp [execAll, denyOnFirstDeny, permitOnFirstPermit]

/-- **no endpoint looks at another model**: two native APIs that agree on the pinned model give the same
Evaluation, Evaluations (every semantic), SubjectSearch and ResourceSearch answers -/
theorem endpoints_ignore_other_models (N N' : NativeM V) (hdr : String) (h : N.pinned hdr = N'.pinned hdr) :
    (∀ s r a c, evaluationH N hdr s r a c = evaluationH N' hdr s r a c) ∧
    (∀ rq, evaluationsH N hdr rq = evaluationsH N' hdr rq) ∧
    (∀ t p res act c, subjectSearchH N hdr t p res act c = subjectSearchH N' hdr t p res act c) ∧
    (∀ subj act t p c, resourceSearchH N hdr subj act t p c = resourceSearchH N' hdr subj act t p c) := by
  refine ⟨?_, ?_, ?_, ?_⟩ <;> intros <;> simp only [evaluationH, evaluationsH, subjectSearchH, resourceSearchH, h]

/-- **SubjectSearch / ResourceSearch**: ListUsers / StreamedListObjects AT the pinned model -/
theorem searches_model_pinned (N : NativeM V) (hdr : String) :
    (∀ (subjType : String) (subjProps : Option (Struct V)) (res : Entity V) (act : Action V) (ctx : Option (Struct V))
        (us : List UserRes), (validName 50 subjType && validResource res && validAction act) = true →
        N.listUsers hdr (subjectSearchReq subjType subjProps res act ctx) = .ok us →
        (∀ u ∈ us, ∀ t i r, u ≠ .userset t i r) →
        ∃ l, subjectSearchH N hdr subjType subjProps res act ctx = .ok l ∧
          l.map (fun p => pair p.1 p.2) = us.map userString) ∧
    (∀ (subj : Entity V) (act : Action V) (resType : String) (resProps ctx : Option (Struct V)) (ps : List (String × String)),
        (validSubject subj && validAction act && validName 50 resType) = true →
        N.streamedListObjects hdr (resourceSearchReq subj act resType resProps ctx) = .ok (ps.map (fun p => pair p.1 p.2)) →
        (∀ p ∈ ps, ':' ∉ p.1.toList) →
        resourceSearchH N hdr subj act resType resProps ctx = .ok ps) :=
  ⟨fun subjType subjProps res act ctx us hv hn hu => subjectSearch_exact (N.pinned hdr) subjType subjProps res act ctx us hv hn hu,
   fun subj act resType resProps ctx ps hv hn hc => resourceSearch_exact (N.pinned hdr) subj act resType resProps ctx ps hv hn hc⟩

/-- **ActionSearch**: relations and BatchCheck of the model the header RESOLVES to -/
theorem actionSearch_model_pinned (N : NativeM V) (hdr rid : String) (subj res : Entity V) (ctx : Option (Struct V))
    (rels : List String) (f : Nat → Option BatchRes)
    (hv : (validSubject subj && validResource res) = true) (hres : N.resolve hdr = .ok rid)
    (hr : N.relations rid res.typ = .ok rels)
    (hf : N.batchCheck rid (rels.map (actionCheckReq subj res ctx)) = .ok f) :
    ∃ l, actionSearchH N hdr subj res ctx = .ok l ∧
      ∀ name, name ∈ l ↔ ∃ i, rels[i]? = some name ∧ f i = some (.allowed true) := by
  obtain ⟨l, h1, h2⟩ := actionSearch_mem (N.pinned rid) subj res ctx rels f hv hr hf
  exact ⟨l, by simp [actionSearchH, hv, hres, h1], h2⟩

/-- a store with two models: the older one ("OLD") allows, the latest one ("") denies everything -/
def twoModels : NativeM Nat :=
  { check := fun mid _ => if mid = "OLD" then .allow else .deny,
    batchCheck := fun mid _ => .ok (fun _ => some (.allowed (mid = "OLD"))),
    listUsers := fun _ _ => .ok [], streamedListObjects := fun _ _ => .ok [],
    resolve := fun mid => .ok (if mid = "" then "NEW" else mid), relations := fun _ _ => .ok [] }

def itemX : Item Nat :=
  { subject := some { typ := "user", id := "x" }, resource := some { typ := "doc", id := "1" }, action := some { name := "viewer" } }

/-- **The field is necessary**: a BatchCheckRequest WITHOUT the pinned id (`batchMid = ""`) answers from the
latest model — execute_all then contradicts the single Evaluation of the same item under the same header. -/
theorem unpinned_batch_differs :
    evaluateAllAt twoModels "OLD" {} [itemX] = .ok [.decision true] ∧
    evaluateAllAt twoModels "" {} [itemX] = .ok [.decision false] ∧
    evaluationH twoModels "OLD" itemX.subject itemX.resource itemX.action none = .ok true := by decide

/-! ## ties to the source (`Gen.Authzen`, extract/facts_authzen.go) -/

/-- merge order: subject, resource, action properties, then the request context -/
theorem tie_merge_order :
    Gen.Authzen.mergeStepSources =
      ["subject.GetProperties().AsMap()", "resource.GetProperties().AsMap()", "action.GetProperties().AsMap()",
       "requestContext.AsMap()"] ∧
    Gen.Authzen.mergeParams = ["requestContext", "subject", "resource", "action"] := ⟨rfl, rfl⟩

/-- the key prefixes are the model's -/
theorem tie_merge_prefixes :
    Gen.Authzen.mergeStepPrefixes = [subjectPrefix, resourcePrefix, actionPrefix, ""] := rfl

theorem tie_merge_guards :
    Gen.Authzen.mergeStepGuards =
      ["subject != nil && subject.GetProperties() != nil", "resource != nil && resource.GetProperties() != nil",
       "action != nil && action.GetProperties() != nil", "requestContext != nil"] ∧
    Gen.Authzen.mergeEmptyIsNil = true ∧
    Gen.Authzen.mergeOtherStmts = ["merged := make(map[string]any)", "return structpb.NewStruct(merged)"] := ⟨rfl, rfl, rfl⟩

theorem tie_build :
    Gen.Authzen.buildGuards = ["subject == nil", "resource == nil", "action == nil", "err != nil"] ∧
    Gen.Authzen.buildMergeArgs = ["reqContext", "subject", "resource", "action"] ∧
    Gen.Authzen.buildTupleKey =
      ["User=fmt.Sprintf(\"%s:%s\", subject.GetType(), subject.GetId())", "Relation=action.GetName()",
       "Object=fmt.Sprintf(\"%s:%s\", resource.GetType(), resource.GetId())"] ∧
    Gen.Authzen.buildCheckRequestFields =
      ["StoreId=storeID", "AuthorizationModelId=authorizationModelID", "TupleKey=<tupleKey>", "Context=mergedContext"] := ⟨rfl, rfl, rfl, rfl⟩

theorem tie_resolve_eval_fields :
    Gen.Authzen.resolveEvalFieldsSkeleton =
      ["subject := eval.GetSubject()", "if subject == nil", "{", "subject = topSubject", "}",
       "resource := eval.GetResource()", "if resource == nil", "{", "resource = topResource", "}",
       "action := eval.GetAction()", "if action == nil", "{", "action = topAction", "}",
       "evalContext := eval.GetContext()", "if evalContext == nil", "{", "evalContext = topContext", "}",
       "return subject, resource, action, evalContext"] := rfl

theorem tie_evaluation :
    Gen.Authzen.evaluationBuildArgs =
      ["req.GetStoreId()", "authorizationModelID", "req.GetSubject()", "req.GetResource()", "req.GetAction()", "req.GetContext()"] ∧
    Gen.Authzen.evaluationSkeleton.drop 12 =
      ["checkResponse, err := s.Check(ctx, checkReq)", "if err != nil", "{", "return nil, err", "}",
       "return &authzenv1.EvaluationResponse{ Decision: checkResponse.GetAllowed(), }, nil"] := ⟨rfl, rfl⟩

/-- the part of `Evaluations` after the request preparation: empty list, default semantic, accepted enum
values, dispatch -/
theorem tie_evaluations :
    Gen.Authzen.evaluationsSkeleton.drop 6 =
      ["if len(req.GetEvaluations()) == 0", "{",
       "evalResp, err := s.Evaluation(ctx, &authzenv1.EvaluationRequest{ Subject: req.GetSubject(), Resource: req.GetResource(), Action: req.GetAction(), Context: req.GetContext(), StoreId: req.GetStoreId(), })",
       "if err != nil", "{", "return nil, err", "}",
       "return &authzenv1.EvaluationsResponse{ Evaluations: []*authzenv1.EvaluationResponse{evalResp}, }, nil", "}",
       "authorizationModelID := getAuthorizationModelIDFromHeader(ctx)",
       "semantic := authzenv1.EvaluationsSemantic_execute_all",
       "if req.GetOptions() != nil", "{", "semantic = req.GetOptions().GetEvaluationsSemantic()", "switch semantic",
       "case authzenv1.EvaluationsSemantic_execute_all, authzenv1.EvaluationsSemantic_deny_on_first_deny, authzenv1.EvaluationsSemantic_permit_on_first_permit:",
       "default:",
       "return nil, status.Error(codes.InvalidArgument, \"invalid evaluations_semantic: value must be one of the defined enum values\")",
       "endswitch", "}",
       "if semantic == authzenv1.EvaluationsSemantic_deny_on_first_deny || semantic == authzenv1.EvaluationsSemantic_permit_on_first_permit",
       "{", "return s.evaluateWithShortCircuit(ctx, req, authorizationModelID, semantic), nil", "}",
       "return s.evaluateAll(ctx, req, authorizationModelID)"] := rfl

/-- the loop of `evaluateWithShortCircuit`: what is appended and when the loop breaks / continues -/
theorem tie_short_circuit :
    Gen.Authzen.shortCircuitSkeleton.drop 5 =
      ["for _, eval := range req.GetEvaluations()", "{",
       "subject, resource, action, evalContext := resolveEvalFields(eval, topSubject, topResource, topAction, topContext)",
       "checkReq, err := buildCheckRequest( req.GetStoreId(), authorizationModelID, subject, resource, action, evalContext, )",
       "if err != nil", "{",
       "responses = append(responses, &authzenv1.EvaluationResponse{ Decision: false, Context: errorContext(uint32(runtime.HTTPStatusFromCode(codes.InvalidArgument)), err.Error()), })",
       "if semantic == authzenv1.EvaluationsSemantic_deny_on_first_deny", "{", "break", "}", "continue", "}",
       "checkResponse, err := s.Check(ctx, checkReq)",
       "if err != nil", "{",
       "responses = append(responses, &authzenv1.EvaluationResponse{ Decision: false, Context: errorContext(grpcErrorToHTTPStatus(err), err.Error()), })",
       "if semantic == authzenv1.EvaluationsSemantic_deny_on_first_deny", "{", "break", "}", "continue", "}",
       "decision := checkResponse.GetAllowed()",
       "responses = append(responses, &authzenv1.EvaluationResponse{Decision: decision})",
       "if semantic == authzenv1.EvaluationsSemantic_deny_on_first_deny && !decision", "{", "break", "}",
       "if semantic == authzenv1.EvaluationsSemantic_permit_on_first_permit && decision", "{", "break", "}",
       "}", "return &authzenv1.EvaluationsResponse{Evaluations: responses}"] ∧
    Gen.Authzen.shortCircuitSkeleton.take 5 =
      ["responses := make([]*authzenv1.EvaluationResponse, 0, len(req.GetEvaluations()))",
       "topSubject := req.GetSubject()", "topResource := req.GetResource()", "topAction := req.GetAction()",
       "topContext := req.GetContext()"] := ⟨rfl, rfl⟩

/-- `evaluateAll`: build loop (an unbuildable item fails the request), correlation id = index, result loop -/
theorem tie_evaluate_all :
    Gen.Authzen.evaluateAllBatchItem =
      ["TupleKey=checkReq.GetTupleKey()", "Context=checkReq.GetContext()", "CorrelationId=strconv.Itoa(i)"] ∧
    (Gen.Authzen.evaluateAllSkeleton.drop 5).take 9 =
      ["for i, eval := range req.GetEvaluations()", "{",
       "subject, resource, action, evalContext := resolveEvalFields(eval, topSubject, topResource, topAction, topContext)",
       "checkReq, err := buildCheckRequest(req.GetStoreId(), authorizationModelID, subject, resource, action, evalContext)",
       "if err != nil", "{", "return nil, status.Errorf(codes.InvalidArgument, \"evaluation %d: %v\", i, err)", "}",
       "batchReq.Checks = append(batchReq.Checks, &openfgav1.BatchCheckItem{ TupleKey: checkReq.GetTupleKey(), Context: checkReq.GetContext(), CorrelationId: strconv.Itoa(i), })"] ∧
    (Gen.Authzen.evaluateAllSkeleton.drop 15).take 16 =
      ["batchResp, err := s.BatchCheck(ctx, batchReq)", "if err != nil", "{", "return nil, err", "}",
       "responses := make([]*authzenv1.EvaluationResponse, len(req.GetEvaluations()))",
       "for i := range responses", "{", "key := strconv.Itoa(i)", "result, ok := batchResp.GetResult()[key]",
       "if !ok || result == nil", "{",
       "responses[i] = &authzenv1.EvaluationResponse{ Decision: false, Context: errorContext(500, fmt.Sprintf(\"missing result for evaluation %d\", i)), }",
       "continue", "}",
       "if errResult, ok := result.GetCheckResult().(*openfgav1.BatchCheckSingleResult_Error); ok"] ∧
    Gen.Authzen.evaluateAllSkeleton.drop 31 =
      ["{", "httpStatus := uint32(500)", "errMessage := \"internal error\"", "if errResult.Error != nil", "{",
       "errMessage = errResult.Error.GetMessage()", "typeswitch code := errResult.Error.GetCode().(type)",
       "case *openfgav1.CheckError_InputError:",
       "encodedErr := servererrors.NewEncodedError(int32(code.InputError), errMessage)",
       "httpStatus = uint32(encodedErr.HTTPStatus())", "case *openfgav1.CheckError_InternalError:", "httpStatus = 500",
       "endswitch", "}",
       "responses[i] = &authzenv1.EvaluationResponse{ Decision: false, Context: errorContext(httpStatus, errMessage), }", "}",
       "else", "{", "responses[i] = &authzenv1.EvaluationResponse{ Decision: result.GetAllowed(), }", "}", "}",
       "return &authzenv1.EvaluationsResponse{Evaluations: responses}, nil"] := ⟨rfl, rfl, rfl, rfl⟩

theorem tie_subject_search :
    Gen.Authzen.subjectSearchMergeArgs = ["req.GetContext()", "req.GetSubject()", "req.GetResource()", "req.GetAction()"] ∧
    Gen.Authzen.subjectSearchRequest =
      ["StoreId=req.GetStoreId()", "AuthorizationModelId=authorizationModelID",
       "Object=&openfgav1.Object{ Type: req.GetResource().GetType(), Id: req.GetResource().GetId(), }",
       "Relation=req.GetAction().GetName()", "Context=mergedContext",
       "UserFilters=[]*openfgav1.UserTypeFilter{ {Type: req.GetSubject().GetType()}, }"] ∧
    Gen.Authzen.subjectSearchSkeleton.drop 13 =
      ["if err != nil", "{", "return nil, err", "}",
       "subjects := make([]*authzenv1.Subject, 0, len(listUsersResp.GetUsers()))",
       "for _, user := range listUsersResp.GetUsers()", "{",
       "if obj := user.GetObject(); obj != nil", "{",
       "subjects = append(subjects, &authzenv1.Subject{Type: obj.GetType(), Id: obj.GetId()})", "}", "else",
       "if w := user.GetWildcard(); w != nil", "{",
       "subjects = append(subjects, &authzenv1.Subject{Type: w.GetType(), Id: \"*\"})", "}", "}",
       "return &authzenv1.SubjectSearchResponse{Results: subjects}, nil"] := ⟨rfl, rfl, rfl⟩

theorem tie_resource_search :
    Gen.Authzen.resourceSearchMergeArgs = ["req.GetContext()", "req.GetSubject()", "req.GetResource()", "req.GetAction()"] ∧
    Gen.Authzen.resourceSearchRequest =
      ["StoreId=req.GetStoreId()", "AuthorizationModelId=authorizationModelID",
       "User=fmt.Sprintf(\"%s:%s\", req.GetSubject().GetType(), req.GetSubject().GetId())",
       "Relation=req.GetAction().GetName()", "Type=req.GetResource().GetType()", "Context=mergedContext"] ∧
    Gen.Authzen.resourceSearchSkeleton.drop 14 =
      ["if err != nil", "{", "return nil, err", "}",
       "resources := make([]*authzenv1.Resource, 0, len(collector.objects))",
       "for _, objID := range collector.objects", "{",
       "if typ, id, ok := strings.Cut(objID, \":\"); ok", "{",
       "resources = append(resources, &authzenv1.Resource{Type: typ, Id: id})", "}", "}",
       "return &authzenv1.ResourceSearchResponse{Results: resources}, nil"] := ⟨rfl, rfl, rfl⟩

theorem tie_action_search :
    Gen.Authzen.actionSearchMergeArgs = ["req.GetContext()", "req.GetSubject()", "req.GetResource()", "nil"] ∧
    Gen.Authzen.actionSearchBatchItem = ["TupleKey=<tupleKey>", "Context=mergedContext", "CorrelationId=strconv.Itoa(i)"] ∧
    Gen.Authzen.actionSearchTupleKey = ["User=user", "Relation=rel", "Object=object"] ∧
    (Gen.Authzen.actionSearchSkeleton.drop 23).take 2 =
      ["user := fmt.Sprintf(\"%s:%s\", req.GetSubject().GetType(), req.GetSubject().GetId())",
       "object := fmt.Sprintf(\"%s:%s\", req.GetResource().GetType(), req.GetResource().GetId())"] ∧
    (Gen.Authzen.actionSearchSkeleton.drop 41).take 8 =
      ["for correlationID, result := range batchResp.GetResult()", "{", "if result.GetError() != nil", "{",
       "s.logger.WarnWithContext(ctx, \"action search: batch check item returned error\", zap.String(\"correlation_id\", correlationID), zap.String(\"error_message\", result.GetError().GetMessage()), )",
       "continue", "}", "if result.GetAllowed()"] ∧
    Gen.Authzen.actionSearchSkeleton.drop 56 =
      ["actions = append(actions, &authzenv1.Action{Name: relationNames[idx]})", "}", "}",
       "sort.Slice(actions, func(i, j int) bool { return actions[i].GetName() < actions[j].GetName() })",
       "return &authzenv1.ActionSearchResponse{Results: actions}, nil"] := ⟨rfl, rfl, rfl, rfl, rfl, rfl⟩

/-- **the model id**: it is read from the header once per endpoint, handed to `buildCheckRequest` /
`evaluateWithShortCircuit` / `evaluateAll` / `resolveTypesystem`, and EVERY native request literal built in
authzen.go sets `AuthorizationModelId` (ActionSearch: the resolved id) -/
theorem tie_model_pinned :
    Gen.Authzen.nativeModelIds =
      ["buildCheckRequest:CheckRequest:AuthorizationModelId=authorizationModelID",
       "evaluateAll:BatchCheckRequest:AuthorizationModelId=authorizationModelID",
       "SubjectSearch:ListUsersRequest:AuthorizationModelId=authorizationModelID",
       "ResourceSearch:StreamedListObjectsRequest:AuthorizationModelId=authorizationModelID",
       "ActionSearch:BatchCheckRequest:AuthorizationModelId=resolvedModelID"] ∧
    Gen.Authzen.modelIdSources =
      ["getAuthorizationModelIDFromHeader:authorizationModelID := strings.TrimSpace(values[0])",
       "Evaluation:authorizationModelID := getAuthorizationModelIDFromHeader(ctx)",
       "Evaluations:authorizationModelID := getAuthorizationModelIDFromHeader(ctx)",
       "SubjectSearch:authorizationModelID := getAuthorizationModelIDFromHeader(ctx)",
       "ResourceSearch:authorizationModelID := getAuthorizationModelIDFromHeader(ctx)",
       "ActionSearch:authorizationModelID := getAuthorizationModelIDFromHeader(ctx)",
       "ActionSearch:resolvedModelID := typesys.GetAuthorizationModelID()"] ∧
    Gen.Authzen.modelIdPassing =
      ["Evaluation:buildCheckRequest(req.GetStoreId(), authorizationModelID, req.GetSubject(), req.GetResource(), req.GetAction(), req.GetContext())",
       "Evaluations:s.evaluateWithShortCircuit(ctx, req, authorizationModelID, semantic)",
       "Evaluations:s.evaluateAll(ctx, req, authorizationModelID)",
       "evaluateAll:buildCheckRequest(req.GetStoreId(), authorizationModelID, subject, resource, action, evalContext)",
       "evaluateWithShortCircuit:buildCheckRequest(req.GetStoreId(), authorizationModelID, subject, resource, action, evalContext)",
       "ActionSearch:s.resolveTypesystem(ctx, req.GetStoreId(), authorizationModelID)"] ∧
    Gen.Authzen.buildCheckRequestFields.contains "AuthorizationModelId=authorizationModelID" = true := ⟨rfl, rfl, rfl, by decide⟩

/-! ## non-vacuity -/

/-- a native API that allows exactly `user:x` as `viewer` of `doc:1` when the context says `subject_x = 5` -/
def toyNative : Native Nat :=
  { check := fun rq => if rq.user = "user:x" ∧ rq.obj = "doc:1" ∧ rq.rel = "viewer" ∧ (rq.ctx.bind (lookup · "subject_x")) = some 5
                       then .allow else .deny,
    batchCheck := fun _ => .error 13,
    listUsers := fun _ => .ok [.object "user" "x", .wildcard "user"],
    streamedListObjects := fun _ => .ok ["doc:1", "doc:a:b"],
    relations := fun _ => .ok ["viewer", "editor"] }

def sx : Entity Nat := { typ := "user", id := "x", props := some [("x", 5)] }
def d1 : Entity Nat := { typ := "doc", id := "1" }
def viewer : Action Nat := { name := "viewer" }

/-- the subject property reaches the native Check as `subject_x` … -/
example : evaluation toyNative (some sx) (some d1) (some viewer) none = .ok true := by decide
/-- … and the request context overrides it -/
example : evaluation toyNative (some sx) (some d1) (some viewer) (some [("subject_x", 7)]) = .ok false := by decide
example : (validSubject sx && validResource d1 && validAction viewer) = true := by decide
/-- short circuit: deny_on_first_deny stops at the first deny, permit_on_first_permit at the first permit -/
example : shortCircuit toyNative denyOnFirstDeny { subject := some sx, action := some viewer }
    [{ resource := some d1 }, { resource := some { typ := "doc", id := "2" } }, { resource := some d1 }]
    = [.decision true, .decision false] := by decide
example : shortCircuit toyNative permitOnFirstPermit { subject := some sx, action := some viewer }
    [{}, { resource := some d1 }, { resource := some d1 }] = [.error 400, .decision true] := by decide
example : resourceSearch toyNative sx viewer "doc" none none = .ok [("doc", "1"), ("doc", "a:b")] := by decide
example : subjectSearch toyNative "user" none d1 viewer none = .ok [("user", "x"), ("user", "*")] := by decide

end OpenFGAVerif.C32
