/-
Fan-in of iterator channels (`internal/iterator/fan_in.go: FanInIteratorChannels`), part of C23.

Specification: the output channel carries every message of every input channel — messages that carry an iterator
AND messages that carry only an error — each exactly once, the messages of one input in their order, in an
arbitrary interleaving; after cancellation a message that could not be forwarded is dropped and its iterator
(if it has one) is stopped.

Model: one worker per input channel forwards `for v := range c { trySend(v) }`.  An execution is an interleaving of
the workers' steps; every step is "forward" (the send went through) or — only once the context is cancelled —
"drop".  `Run` is the relation over all interleavings and all cancellation points.
-/
import OpenFGAVerif.Gen.Strategies

namespace OpenFGAVerif.FanIn

structure Msg where
  iter : Option Nat      -- identity of the carried iterator, if any
  err : Option Nat       -- carried error, if any
  deriving DecidableEq, Repr

/-- what an execution produced: forwarded messages (in output order), dropped messages, iterators stopped by fan-in -/
structure Out where
  sent : List Msg
  dropped : List Msg
  stopped : List Nat
  deriving Repr

def stopOf (m : Msg) : List Nat := match m.iter with | some i => [i] | none => []

/-- executions: `cancelled` may flip to true at any point and stays true; drops happen only when cancelled -/
inductive Run : (chans : List (List Msg)) → (cancelled : Bool) → Out → Prop
  | done {chans c} : (∀ ch ∈ chans, ch = []) → Run chans c ⟨[], [], []⟩
  | cancel {chans o} : Run chans true o → Run chans false o
  | forward {chans c o} (i : Nat) (m : Msg) (rest : List Msg) :
      chans[i]? = some (m :: rest) → Run (chans.set i rest) c o →
      Run chans c ⟨m :: o.sent, o.dropped, o.stopped⟩
  | drop {chans o} (i : Nat) (m : Msg) (rest : List Msg) :
      chans[i]? = some (m :: rest) → Run (chans.set i rest) true o →
      Run chans true ⟨o.sent, m :: o.dropped, stopOf m ++ o.stopped⟩

theorem flatten_set_perm {α} : ∀ (chans : List (List α)) (i : Nat) (m : α) (rest : List α),
    chans[i]? = some (m :: rest) → chans.flatten.Perm (m :: (chans.set i rest).flatten)
  | [], i, m, rest, h => by simp at h
  | ch :: chans, 0, m, rest, h => by
      simp at h; subst h; simp
  | ch :: chans, i + 1, m, rest, h => by
      have ih := flatten_set_perm chans i m rest (by simpa using h)
      simp only [List.set_cons_succ, List.flatten_cons]
      exact (List.Perm.append_left ch ih).trans List.perm_middle

/-- **Conservation**: every input message is either forwarded or dropped, exactly once (as multisets) -/
theorem run_conserves {chans c o} (h : Run chans c o) : (o.sent ++ o.dropped).Perm chans.flatten := by
  induction h with
  | done hall =>
    have : ∀ chs : List (List Msg), (∀ ch ∈ chs, ch = []) → chs.flatten = [] := by
      intro chs; induction chs with
      | nil => simp
      | cons a t ih => intro h; simp [h a (by simp), ih (fun ch hc => h ch (by simp [hc]))]
    simp [this _ hall]
  | cancel _ ih => exact ih
  | forward i m rest hi _ ih =>
    exact (List.Perm.cons m ih).trans (flatten_set_perm _ i m rest hi).symm
  | drop i m rest hi _ ih =>
    refine List.Perm.trans ?_ (flatten_set_perm _ i m rest hi).symm
    exact List.perm_middle.trans (List.Perm.cons m ih)

/-- executions that never cancel -/
inductive RunLive : List (List Msg) → List Msg → Prop
  | done {chans} : (∀ ch ∈ chans, ch = []) → RunLive chans []
  | forward {chans out} (i : Nat) (m : Msg) (rest : List Msg) :
      chans[i]? = some (m :: rest) → RunLive (chans.set i rest) out → RunLive chans (m :: out)

theorem runLive_run {chans out} (h : RunLive chans out) : Run chans false ⟨out, [], []⟩ := by
  induction h with
  | done hall => exact .done hall
  | forward i m rest hi _ ih => exact .forward (o := ⟨_, [], []⟩) i m rest hi ih

/-- **fan-in, live context**: the consumer receives exactly the input messages -/
theorem fanIn_live_perm {chans out} (h : RunLive chans out) : out.Perm chans.flatten := by
  simpa using run_conserves (runLive_run h)

/-- every error carried by any input message reaches the consumer when the context stays live -/
theorem fanIn_live_error_delivered {chans out} (h : RunLive chans out) (m : Msg) (ch : List Msg)
    (hch : ch ∈ chans) (hm : m ∈ ch) : m ∈ out :=
  (fanIn_live_perm h).mem_iff.mpr (List.mem_flatten.mpr ⟨ch, hch, hm⟩)

/-- per-input order is preserved -/
theorem fanIn_live_order {chans out} (h : RunLive chans out) :
    ∀ (i : Nat) (ch : List Msg), chans[i]? = some ch → List.Sublist ch out := by
  induction h with
  | done hall =>
    intro i ch hi
    have : ch ∈ _ := List.mem_of_getElem? hi
    simp [hall ch this]
  | @forward chans out j m rest hj _ ih =>
    intro i ch hi
    by_cases hij : i = j
    · subst hij
      rw [hj] at hi; cases hi
      have hlt : i < chans.length := by
        rcases List.getElem?_eq_some_iff.mp hj with ⟨h, _⟩; exact h
      have := ih i rest (by simp [hlt])
      exact this.cons_cons m
    · have := ih i ch (by rw [List.getElem?_set_ne (Ne.symm hij)]; exact hi)
      exact this.cons m

/-- **resources**: an iterator carried by a dropped message is stopped by fan-in itself -/
theorem dropped_are_stopped {chans c o} (h : Run chans c o) : o.stopped = o.dropped.flatMap stopOf := by
  induction h with
  | done _ => rfl
  | cancel _ ih => exact ih
  | forward _ _ _ _ _ ih => simpa using ih
  | drop _ m _ _ _ ih => simp [List.flatMap_cons, ih]

/-- negative witness for the "skip messages without iterator" variant: a worker that skips `iter = none` messages
loses the error — it does not satisfy `fanIn_live_perm` -/
def skipNil (chans : List (List Msg)) : List (List Msg) := chans.map (·.filter (·.iter.isSome))

example : ¬ (skipNil [[⟨some 1, none⟩, ⟨none, some 7⟩]]).flatten.Perm [[(⟨some 1, none⟩ : Msg), ⟨none, some 7⟩]].flatten := by
  intro h; have := h.length_eq; simp [skipNil] at this

/-- premises satisfiable: two inputs, one of them ending in an error-only message -/
example : RunLive [[⟨some 1, none⟩, ⟨none, some 7⟩], [⟨some 2, none⟩]]
    [⟨some 2, none⟩, ⟨some 1, none⟩, ⟨none, some 7⟩] :=
  .forward 1 _ [] rfl (.forward 0 _ [⟨none, some 7⟩] rfl (.forward 0 _ [] rfl (.done (by simp))))

/-! ### tie to the source: every message read from an input is offered to `out` unconditionally; only a failed
(cancelled) send drops it, stopping its iterator when it has one -/
theorem tie_fan_in : Gen.Strategies.fanInIteratorChannelsSkel = [
  "0:limit := len(chans)",
  "0:out := make(chan *Msg, limit)",
  "0:if limit == 0",
  "1:close(out)",
  "1:return out",
  "0:pool := concurrency.NewPool(ctx, limit)",
  "0:range _, c := chans",
  "1:pool.Go(func{..})",
  "2:range v := c",
  "3:if !concurrency.TrySendThroughChannel(ctx, v, out)",
  "4:if v.Iter != nil",
  "5:v.Iter.Stop()",
  "2:return nil",
  "0:go func{..}()",
  "1:_ = pool.Wait()",
  "1:close(out)",
  "0:return out"] := by rfl

end OpenFGAVerif.FanIn
