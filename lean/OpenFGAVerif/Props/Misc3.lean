/-
Three source ties shared by several properties:

* C12 / C13 / C23: the sqlite tuple iterator distinguishes "no more rows" from "the driver failed while stepping":
  a swallowed `rows.Err()` makes a truncated result look complete (Write then works from a truncated set of
  existing rows: partial application; reads silently lose tuples).
* C16: sqlite `DeleteStore` reports the error of its UPDATE (a swallowed busy error leaves the store listed while the
  API answered OK).
* C18 / C04: contextual tuples of EVERY query entry point (Check, BatchCheck via Check, ListObjects unary AND streamed,
  ListUsers, Expand, WriteAssertions) are validated like tuples to be written.
-/
import OpenFGAVerif.Gen.Misc3

namespace OpenFGAVerif.Misc3

/-- end of a row stream as the iterator reports it -/
inductive End | done | failed
  deriving DecidableEq

/-- the code: after `rows.Next()` = false, `rows.Err()` decides -/
def endOf (driverErr : Bool) : End := if driverErr then .failed else .done

theorem truncated_is_not_complete (driverErr : Bool) : endOf driverErr = .done → driverErr = false := by
  cases driverErr <;> simp [endOf]

/-- witness: ignoring the driver error reports a truncated stream as complete -/
example : (fun (_ : Bool) => End.done) true = End.done := rfl

theorem tie_sql_iter_end : Gen.Misc3.sqlIterEnd =
    ["err := t.rows.Err()", "t.mu.Unlock()", "if err != nil { return nil, t.handleSQLError(err) }",
     "return nil, storage.ErrIteratorDone"] := by rfl

theorem tie_sqlite_delete_store : Gen.Misc3.sqliteDeleteStore =
    ["ctx, span := startTrace(ctx, \"DeleteStore\")", "defer span.End()",
     "_, err := s.stbl. Update(\"store\"). Set(\"deleted_at\", sq.Expr(\"datetime('subsec')\")). Where(sq.Eq{\"id\": id}). ExecContext(ctx)",
     "if err != nil { return HandleSQLError(err) }", "return nil"] := by rfl

theorem tie_tuple_validators : Gen.Misc3.tupleValidators =
    ["internal/graph/check.go:checkDirectUserTuple:ValidateTupleForRead",
     "pkg/server/commands/check_command.go:validateCheckRequest:ValidateTupleForWrite",
     "pkg/server/commands/expand.go:Execute:ValidateTupleForWrite",
     "pkg/server/commands/list_objects.go:Execute:ValidateTupleForWrite",
     "pkg/server/commands/list_objects.go:ExecuteStreamed:ValidateTupleForWrite",
     "pkg/server/commands/listusers/validate.go:validateContextualTuples:ValidateTupleForWrite",
     "pkg/server/commands/write.go:validateWriteRequest:ValidateTupleForWrite",
     "pkg/server/commands/write_assertions.go:Execute:ValidateTupleForWrite"] := by rfl

end OpenFGAVerif.Misc3
