/-
Consumer side of the ListObjects pipeline (`Pipeline.Recv`), part of C21: a receive whose OWN context is done must
not tear the cycle down — the caller may poll with short per-call timeouts while a slow recursive cycle still has
messages in flight; the pipeline is closed by `Recv` only after an error arrived or the output was exhausted under
a live context.
-/
import OpenFGAVerif.Gen.PipelineRecv

namespace OpenFGAVerif.PipelineRecv

/-- what one pass of the receive loop observes -/
structure Obs where
  ctxDoneAtHead : Bool      -- `ctx.Err() != nil` at the loop head
  buffered : Bool           -- a buffered value is available
  errArrived : Bool         -- `p.errs.TryRecv()` delivered an error
  outputOk : Bool           -- `p.output.Recv(ctx)` delivered a message
  ctxDoneAfter : Bool       -- `ctx.Err() != nil` after a failed output receive

/-- does this pass call `p.Close()`? (mirrors the two extracted close sites) -/
def closes (o : Obs) : Bool :=
  if o.ctxDoneAtHead then false
  else if o.buffered then false
  else if o.errArrived then true
  else if o.outputOk then false
  else !o.ctxDoneAfter

/-- a receive that ends because its own context is done never closes the pipeline -/
theorem own_timeout_keeps_pipeline (o : Obs) (h : o.ctxDoneAtHead = true ∨ (o.outputOk = false ∧ o.ctxDoneAfter = true ∧ o.errArrived = false)) :
    closes o = false := by
  unfold closes
  rcases h with h | ⟨h1, h2, h3⟩
  · simp [h]
  · cases o.ctxDoneAtHead <;> cases o.buffered <;> simp [h1, h2, h3]

/-- the pipeline is closed by Recv exactly on an error or on exhaustion under a live context -/
theorem closes_iff (o : Obs) : closes o = true ↔
    o.ctxDoneAtHead = false ∧ o.buffered = false ∧ (o.errArrived = true ∨ (o.outputOk = false ∧ o.ctxDoneAfter = false)) := by
  unfold closes
  cases o.ctxDoneAtHead <;> cases o.buffered <;> cases o.errArrived <;> cases o.outputOk <;> cases o.ctxDoneAfter <;> simp

/-- witness for the unguarded variant: closing whenever the output yields nothing tears the pipeline down on a
mere per-call timeout -/
def closesUnguarded (o : Obs) : Bool :=
  if o.ctxDoneAtHead then false else if o.buffered then false else if o.errArrived then true else !o.outputOk

example : closesUnguarded ⟨false, false, false, false, true⟩ = true ∧ closes ⟨false, false, false, false, true⟩ = false := by
  decide

/-- tie: the two `p.Close()` sites of `Pipeline.Recv` and the loop head -/
theorem tie_recv_close_sites : Gen.PipelineRecv.closeSites = ["ok", "!ok && ctx.Err() == nil"] ∧
    Gen.PipelineRecv.loopHead = "if ctx.Err() != nil { return \"\", false }" := by decide

end OpenFGAVerif.PipelineRecv
