/-
Two release points of C20 ("queries terminate and release their resources") outside the iterator/send tables:

* a dispatch parked in the dispatch throttler gives up when its context is done (else ListUsers/ListObjects return
  N x frequency after their deadline and a returned Check leaves goroutines parked);
* the background drain of the weighted-graph Check's iterator cache stops the datastore iterator on EVERY exit,
  including the early return "another goroutine already cached this key".
-/
import OpenFGAVerif.Gen.Release2

namespace OpenFGAVerif.Release2

/-- exits of a function body as (name, runs the deferred actions registered before it) -/
def stoppedOnExit (deferRegisteredBeforeFirstReturn : Bool) (_exit : Nat) : Bool := deferRegisteredBeforeFirstReturn

/-- a `defer Stop()` registered before the first statement that can return covers every exit -/
theorem defer_first_covers_all (n : Nat) : ∀ e < n, stoppedOnExit true e = true := by intro _ _; rfl

/-- witness: registered after an early return, that return leaks -/
example : stoppedOnExit false 0 = false := rfl

/-- a wait that is a select with a `ctx.Done()` arm ends no later than the context -/
def waitEnds (hasCtxArm : Bool) (ctxDone tokenArrives : Bool) : Bool := (hasCtxArm && ctxDone) || tokenArrives

theorem parked_dispatch_gives_up (tokenArrives : Bool) : waitEnds true true tokenArrives = true := by simp [waitEnds]

example : waitEnds false true false = false := rfl

theorem tie_throttle_wait : Gen.Release2.throttleWait = ["select{<-ctx.Done() | <-r.throttlingQueue}"] := by decide

theorem tie_drain_prologue : Gen.Release2.drainPrologue =
    ["if c.wg != nil { defer c.wg.Done() }", "defer c.inner.Stop()"] := by decide

end OpenFGAVerif.Release2
