/-
Request-invariant parts of a Check request and their propagation to dispatched sub-problems
(shared by C08, C04, C11, C03).

Both engines cache sub-problems under the key `(store, object, relation, user, invariantCacheKey)` where
`invariantCacheKey = InvariantCacheKey(store, model, context, contextual tuples…)` is computed ONCE per request and
handed down by `clone` / `cloneWithTupleKey`; a cached entry is accepted when it is younger than the request's
`LastCacheInvalidationTime` and the request does not ask for HIGHER_CONSISTENCY.  The soundness theorems of C08
(`Props/C08.lean`) quantify over sub-problems *of one request*, i.e. they assume that every sub-problem carries its
root's invariant parts.  This file states that assumption for a model of `clone`, proves what C08/C04/C11 use
(sub-problem key and validity of a clone are those of the root, at any dispatch depth) and ties the model to the
source: the regenerated field := value lists of both clone functions must copy every invariant field through its
getter, every struct field must be assigned, and the invariant key must be computed from all four inputs.
-/
import OpenFGAVerif.Gen.ReqClone

namespace OpenFGAVerif.ReqClone

/-- the request-invariant parts (abstract values: only equality matters) -/
structure Inv where
  store : Nat
  model : Nat
  ctx : Nat
  ctxTuples : Nat
  consistency : Nat
  lastInvalidation : Nat
  invKey : Nat
  deriving DecidableEq, Repr

/-- a (sub-)problem: invariant parts + the tuple key being resolved + per-branch state -/
structure Req where
  inv : Inv
  tk : Nat
  visited : List Nat
  depth : Nat

/-- `clone` followed by the caller's assignment of the new tuple key (and its per-branch updates) -/
def clone (r : Req) (tk : Nat) (visited : List Nat) : Req :=
  { inv := r.inv, tk := tk, visited := visited, depth := r.depth + 1 }

/-- sub-problem cache key -/
def subKey (r : Req) : Nat × Nat × Nat := (r.inv.store, r.tk, r.inv.invKey)

/-- validity test of a cached entry -/
def accepts (r : Req) (entryTime : Nat) (higher : Nat) : Bool :=
  r.inv.consistency != higher && decide (r.inv.lastInvalidation < entryTime)

/-- `r'` is reachable from `r` by dispatching -/
inductive Dispatches : Req → Req → Prop
  | refl (r) : Dispatches r r
  | step {r r'} (tk vis) : Dispatches r r' → Dispatches r (clone r' tk vis)

theorem dispatches_inv {r r' : Req} (h : Dispatches r r') : r'.inv = r.inv := by
  induction h with
  | refl => rfl
  | step tk vis _ ih => simpa [clone] using ih

/-- at any dispatch depth the sub-problem key is (root store, its own tuple key, root invariant key) -/
theorem subKey_of_dispatch {r r' : Req} (h : Dispatches r r') :
    subKey r' = (r.inv.store, r'.tk, r.inv.invKey) := by
  simp [subKey, dispatches_inv h]

/-- two sub-problems of ONE request collide in the cache only when they resolve the same tuple key -/
theorem same_request_collision {r a b : Req} (ha : Dispatches r a) (hb : Dispatches r b)
    (hk : subKey a = subKey b) : a.tk = b.tk := by
  rw [subKey_of_dispatch ha, subKey_of_dispatch hb] at hk
  exact (Prod.mk.inj (Prod.mk.inj hk).2).1

/-- sub-problems of requests with different invariant keys never share an entry (C04/C08: contextual tuples,
context, model are inside the invariant key — `C24.subproblem_key_injective_upto_digest`) -/
theorem different_requests_no_collision {r₁ r₂ a b : Req} (ha : Dispatches r₁ a) (hb : Dispatches r₂ b)
    (hne : r₁.inv.invKey ≠ r₂.inv.invKey) : subKey a ≠ subKey b := by
  rw [subKey_of_dispatch ha, subKey_of_dispatch hb]
  intro h
  exact hne (Prod.mk.inj (Prod.mk.inj h).2).2

/-- at any depth a cached entry is accepted exactly when the ROOT request would accept it (C11: an entry older
than the last invalidation is rejected for sub-problems too; C10: HIGHER_CONSISTENCY bypasses at every depth) -/
theorem accepts_of_dispatch {r r' : Req} (h : Dispatches r r') (t higher : Nat) :
    accepts r' t higher = accepts r t higher := by
  simp [accepts, dispatches_inv h]

/-- premises satisfiable / conclusion non-trivial -/
example : ∃ r a b, Dispatches r a ∧ Dispatches r b ∧ a.tk ≠ b.tk ∧ subKey a ≠ subKey b := by
  refine ⟨⟨⟨1, 2, 3, 4, 0, 5, 77⟩, 10, [], 0⟩, _, _, .step 11 [10] (.refl _), .step 12 [10] (.refl _), ?_, ?_⟩ <;>
    simp [clone, subKey]

/-! ### tie to the source -/

/-- the invariant fields and the getters `clone` must copy them through (default engine) -/
def v1Required : List (String × String) :=
  [("StoreID", "r.GetStoreID()"), ("AuthorizationModelID", "r.GetAuthorizationModelID()"),
   ("ContextualTuples", "r.GetContextualTuples()"), ("Context", "r.GetContext()"),
   ("Consistency", "r.GetConsistency()"), ("LastCacheInvalidationTime", "r.GetLastCacheInvalidationTime()"),
   ("invariantCacheKey", "r.GetInvariantCacheKey()"), ("SelectedStrategy", "r.GetSelectedStrategy()")]

/-- weighted-graph engine: `cloneWithTupleKey` (it has no invalidation time: its cache is consulted through the
same CachedCheckResolver entry format, validity is tested on the root only) -/
def v2Required : List (String × String) :=
  [("StoreID", "r.GetStoreID()"), ("AuthorizationModelID", "r.GetAuthorizationModelID()"),
   ("ContextualTuples", "r.GetContextualTuples()"), ("Context", "r.GetContext()"),
   ("Consistency", "r.GetConsistency()"), ("invariantCacheKey", "r.GetInvariantCacheKey()"),
   ("ctxTuplesByObjectID", "r.ctxTuplesByObjectID"), ("ctxTuplesByUserID", "r.ctxTuplesByUserID")]

def copies (clone required : List (String × String)) : Bool :=
  required.all fun (f, g) => clone.lookup f == some g

/-- `clone` copies every request-invariant field through its getter … -/
theorem tie_v1_clone_copies_invariants : copies Gen.ReqClone.v1Clone v1Required = true := by decide

/-- … and leaves no field of the struct unassigned (a new field must be classified here first) -/
theorem tie_v1_clone_assigns_every_field :
    Gen.ReqClone.v1Fields.all (fun f => (Gen.ReqClone.v1Clone.lookup f).isSome) = true := by decide

theorem tie_v1_fields : Gen.ReqClone.v1Fields =
    ["StoreID", "AuthorizationModelID", "TupleKey", "ContextualTuples", "Context", "RequestMetadata", "VisitedPaths",
     "Consistency", "LastCacheInvalidationTime", "SelectedStrategy", "invariantCacheKey", "objectType", "userType"] := by
  decide

theorem tie_v2_clone_copies_invariants : copies Gen.ReqClone.v2Clone v2Required = true := by decide

/-- the sub-problem key of a weighted-graph clone is rebuilt from the clone's own store and invariant key -/
theorem tie_v2_clone_cache_key : Gen.ReqClone.v2Clone.lookup "cacheKey" =
    some "storage.CheckCacheKey( req.GetStoreID(), tk.GetObject(), tk.GetRelation(), tk.GetUser(), req.GetInvariantCacheKey(), )" := by
  decide

/-- the invariant key is computed from store, model, context AND the contextual tuples, in both engines -/
theorem tie_invariant_key_inputs :
    Gen.ReqClone.v1InvariantArgs = "params.StoreID, params.AuthorizationModelID, params.Context, params.ContextualTuples..." ∧
    Gen.ReqClone.v2InvariantArgs = "p.StoreID, modelID, p.Context, p.ContextualTuples..." := by
  decide

/-- every root request of the default engine is built by `NewResolveCheckRequest` (which computes the invariant
key): no other package builds a `graph.ResolveCheckRequest` as a struct literal — such a literal has invariant key 0
and zero invalidation time, so its dispatched sub-problems would be cached across requests (finding F30, fixed:
weighted ListObjects' candidate Checks) -/
theorem tie_no_foreign_request_literal : Gen.ReqClone.foreignRequestLiterals = [] := by decide

end OpenFGAVerif.ReqClone
