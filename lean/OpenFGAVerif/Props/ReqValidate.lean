/-
Request-level validation of the server handlers (shared by C17, C18, C19): the protovalidate rules (name patterns of
types / relations / objects / conditions, sizes, required fields) run in the gRPC validation interceptor, which marks
the context; a handler reached without the interceptor (in-process use) runs them itself.  So for every handler:
the rules have run before the handler's own logic, whichever way it is reached.
-/
import OpenFGAVerif.Gen.ReqValidate

namespace OpenFGAVerif.ReqValidate

/-- did the request-level rules run before the handler body? `marked` = the interceptor validated the request
and marked the context; `guardNeg` = the handler validates iff the context is NOT marked -/
def rulesRan (interceptorRan marked guardNeg : Bool) : Bool :=
  interceptorRan || (if guardNeg then !marked else marked)

/-- with the guard `!RequestIsValidatedFromContext(ctx)` the rules always run (the mark is set only by the
interceptor) -/
theorem rules_always_run (interceptorRan : Bool) : rulesRan interceptorRan interceptorRan true = true := by
  cases interceptorRan <;> rfl

/-- witness: with the guard's polarity flipped an in-process call skips the rules -/
example : rulesRan false false false = false := rfl

def guardOf (s : String) : String := ":".intercalate ((s.splitOn ":").drop 2)

/-- every `req.Validate()` of pkg/server is guarded by exactly `!validator.RequestIsValidatedFromContext(ctx)`,
and every RPC handler has one -/
theorem tie_validate_sites : Gen.ReqValidate.sites =
    ["assertions.go:ReadAssertions:!validator.RequestIsValidatedFromContext(ctx)",
     "assertions.go:WriteAssertions:!validator.RequestIsValidatedFromContext(ctx)",
     "authorization_models.go:ReadAuthorizationModel:!validator.RequestIsValidatedFromContext(ctx)",
     "authorization_models.go:ReadAuthorizationModels:!validator.RequestIsValidatedFromContext(ctx)",
     "authorization_models.go:WriteAuthorizationModel:!validator.RequestIsValidatedFromContext(ctx)",
     "authzen.go:initAuthZenRequest:!validator.RequestIsValidatedFromContext(ctx)",
     "batch_check.go:BatchCheck:!validator.RequestIsValidatedFromContext(ctx)",
     "check.go:Check:!validator.RequestIsValidatedFromContext(ctx)",
     "expand.go:Expand:!validator.RequestIsValidatedFromContext(ctx)",
     "list_objects.go:ListObjects:!validator.RequestIsValidatedFromContext(ctx)",
     "list_objects.go:StreamedListObjects:!validator.RequestIsValidatedFromContext(ctx)",
     "list_users.go:ListUsers:!validator.RequestIsValidatedFromContext(ctx)",
     "read.go:Read:!validator.RequestIsValidatedFromContext(ctx)",
     "read_changes.go:ReadChanges:!validator.RequestIsValidatedFromContext(ctx)",
     "stores.go:CreateStore:!validator.RequestIsValidatedFromContext(ctx)",
     "stores.go:DeleteStore:!validator.RequestIsValidatedFromContext(ctx)",
     "stores.go:GetStore:!validator.RequestIsValidatedFromContext(ctx)",
     "stores.go:ListStores:!validator.RequestIsValidatedFromContext(ctx)",
     "write.go:Write:!validator.RequestIsValidatedFromContext(ctx)"] := by rfl

end OpenFGAVerif.ReqValidate
