/-
Singleflight / cache keys of the typesystem resolver (C16, C17, C31).

`Gen.ResolverKeys` (regenerated from pkg/typesystem/resolver.go and storagewrappers/model_caching.go on every run) lists,
for every `lookupGroup.Do(key, fn)`, the pieces of the key expression, the datastore method `fn` calls and its
arguments; and for every `keys.GetBuilder()` cache key its encoded strings.  `Model.ResolverKeys` DEFINES the model's
key functions from that data.

  flight_keys_cover_calls     every argument of the datastore call made inside a flight occurs in the flight's key
  tie_readKey_shape …          the by-id key is  "ReadAuthorizationModel:" ++ storeID ++ "/" ++ modelID, the latest key is
                               "FindLatestAuthorizationModel:" ++ storeID
  readKey_injective            equal by-id keys ⇒ equal (store, model)   (store ids without '/': ULIDs)
  latestKey_injective          equal latest keys ⇒ equal store
  groupKey_sound               on the ONE group both kinds share: equal keys ⇒ the same datastore answer
  resolve_exact                for EVERY schedule of overlapping requests and flight completions, every request is
                               answered — from a flight or from the memo — with the datastore's answer for exactly its own
                               (store, model id); nothing else is ever memoised
  drop_store_leaks / drop_model_leaks   contrast: a key without the store id (resp. the model id) hands store B the model
                               of store A (resp. model m′ for m) and memoises it
-/
import OpenFGAVerif.Model.ResolverKeys
import OpenFGAVerif.Proofs.Resolver

namespace OpenFGAVerif.ResolverKeys
open OpenFGAVerif.Model.Resolver OpenFGAVerif.Proofs.Resolver

/-! ## Ties -/

theorem tie_flightKeys : Gen.ResolverKeys.flightKeys =
    [("resolver.go:MemoizedTypesystemResolverFunc", "FindLatestAuthorizationModel", ["storeID"], [(false, "FindLatestAuthorizationModel:", [70, 105, 110, 100, 76, 97, 116, 101, 115, 116, 65, 117, 116, 104, 111, 114, 105, 122, 97, 116, 105, 111, 110, 77, 111, 100, 101, 108, 58]), (true, "storeID", [])]),
     ("resolver.go:MemoizedTypesystemResolverFunc", "ReadAuthorizationModel", ["storeID", "modelID"], [(false, "ReadAuthorizationModel:", [82, 101, 97, 100, 65, 117, 116, 104, 111, 114, 105, 122, 97, 116, 105, 111, 110, 77, 111, 100, 101, 108, 58]), (true, "storeID", []), (false, "/", [47]), (true, "modelID", [])]),
     ("model_caching.go:FindLatestAuthorizationModel", "FindLatestAuthorizationModel", ["storeID"], [(false, "FindLatestAuthorizationModel:", [70, 105, 110, 100, 76, 97, 116, 101, 115, 116, 65, 117, 116, 104, 111, 114, 105, 122, 97, 116, 105, 111, 110, 77, 111, 100, 101, 108, 58]), (true, "storeID", [])])] := by
  rfl

theorem tie_cacheKeys : Gen.ResolverKeys.cacheKeys =
    [("resolver.go:MemoizedTypesystemResolverFunc", ["\"TS\"", "storeID", "modelID"]),
     ("model_caching.go:ModelCacheKey", ["ModelCacheKeyPrefix", "storeID", "modelID"]),
     ("resolver.go:CacheKey", ["CacheKeyPrefix", "storeID", "modelID"])] := by
  rfl

/-- **every flight key mentions every argument of the datastore call it shares** -/
theorem flight_keys_cover_calls : Gen.ResolverKeys.flightKeys.all keyCoversCall = true := by decide

/-- the model caches (typesystem memo, datastore model cache, weighted model graph of internal/modelgraph) are keyed
by store AND model id -/
theorem cache_keys_carry_store_and_model :
    Gen.ResolverKeys.cacheKeys.all (fun c => c.2.contains "storeID" && c.2.contains "modelID") = true := by decide

def readPrefix : Bytes := [82, 101, 97, 100, 65, 117, 116, 104, 111, 114, 105, 122, 97, 116, 105, 111, 110, 77, 111, 100, 101, 108, 58]
def latestPrefix : Bytes := [70, 105, 110, 100, 76, 97, 116, 101, 115, 116, 65, 117, 116, 104, 111, 114, 105, 122, 97, 116, 105, 111, 110, 77, 111, 100, 101, 108, 58]

theorem tie_readKey_shape : readKeyPieces = (Shape.two readPrefix "storeID" 47 [] "modelID").pieces := by decide

theorem tie_latestKey_shape : latestKeyPieces = (Shape.one latestPrefix "storeID").pieces := by decide

/-! ## Injectivity -/

/-- store ids are ULIDs (validated at the API): no '/' -/
def SlashFree (r : Req) : Prop := (47 : UInt8) ∉ r.store

theorem readKey_injective (r1 r2 : Req) (h1 : SlashFree r1) (h2 : SlashFree r2) (h : readKey r1 = readKey r2) : r1 = r2 := by
  unfold readKey at h
  rw [tie_readKey_shape] at h
  have h1' : (47 : UInt8) ∉ envOf r1 "storeID" := by rw [envOf_store]; exact h1
  have h2' : (47 : UInt8) ∉ envOf r2 "storeID" := by rw [envOf_store]; exact h2
  have hi := render_two_inj readPrefix "storeID" 47 [] "modelID" (envOf r1) (envOf r2) h1' h2' h
  have hs : r1.store = r2.store := by
    have := hi.1
    rw [envOf_store, envOf_store] at this
    exact this
  have hm : r1.model = r2.model := by
    have := hi.2
    rw [envOf_model, envOf_model] at this
    exact this
  exact req_ext r1 r2 hs hm

theorem latestKey_injective (r1 r2 : Req) (h : latestKey r1 = latestKey r2) : r1.store = r2.store := by
  unfold latestKey at h
  rw [tie_latestKey_shape] at h
  have hi := render_one_inj latestPrefix "storeID" (envOf r1) (envOf r2) h
  rw [envOf_store, envOf_store] at hi
  exact hi

theorem latest_ne_read (r1 r2 : Req) : latestKey r1 ≠ readKey r2 := by
  unfold latestKey readKey
  rw [tie_latestKey_shape, tie_readKey_shape]
  exact render_head_ne (envOf r1) (envOf r2) 70 82 _ _ _ _ (by decide)

/-- the datastore as the resolver uses it: by id, or the latest model of the store -/
def dsOf (byId : Bytes → Bytes → Option Nat) (latest : Bytes → Option Nat) (r : Req) : Option Nat :=
  if r.model = [] then latest r.store else byId r.store r.model

/-- **the one singleflight group is sound**: equal keys ⇒ equal datastore answers -/
theorem groupKey_sound (byId : Bytes → Bytes → Option Nat) (latest : Bytes → Option Nat) :
    KeySound SlashFree groupKey (dsOf byId latest) := by
  intro r r' hr hr' hk
  unfold groupKey at hk
  unfold dsOf
  by_cases h1 : r.model = []
  · by_cases h2 : r'.model = []
    · rw [if_pos h1, if_pos h2] at hk
      rw [if_pos h1, if_pos h2, latestKey_injective r r' hk]
    · rw [if_pos h1, if_neg h2] at hk
      exact absurd hk (latest_ne_read r r')
  · by_cases h2 : r'.model = []
    · rw [if_neg h1, if_pos h2] at hk
      exact absurd hk.symm (latest_ne_read r' r)
    · rw [if_neg h1, if_neg h2] at hk
      have := readKey_injective r r' hr hr' hk
      rw [this]

/-- **resolution is exact for every schedule**: on a resolver that starts empty, whatever the order in which requests
(by id or latest, on any stores) arrive and flights complete, each request receives the datastore's answer for exactly its
own (store, model id) — from its own flight, from a flight it joined, or from the memo — and every memo entry is the
datastore's answer for its own key -/
theorem resolve_exact (byId : Bytes → Bytes → Option Nat) (latest : Bytes → Option Nat) (evs : List (Ev Req))
    (hall : ∀ r, Ev.arrive r ∈ evs → SlashFree r) :
    ∀ out ∈ (run groupKey (dsOf byId latest) memoById (empty : St Bytes Req Nat) evs).2, out.2 = dsOf byId latest out.1 :=
  (run_exact SlashFree groupKey (dsOf byId latest) memoById (groupKey_sound byId latest) evs empty
    (inv_empty SlashFree groupKey (dsOf byId latest)) hall).2

/-! ## Contrast: keys that drop a component -/

/-- `"R:" + modelID` -/
def keyDropStore (r : Req) : Bytes := render (envOf r) [.lit [82, 58], .arg "modelID"]
/-- `"R:" + storeID` -/
def keyDropModel (r : Req) : Bytes := render (envOf r) [.lit [82, 58], .arg "storeID"]

/-- store [1] owns models [10] ↦ 100 and [11] ↦ 101; store [2] owns nothing -/
def dsW (r : Req) : Option Nat :=
  if r.store = [1] ∧ r.model = [10] then some 100 else if r.store = [1] ∧ r.model = [11] then some 101 else none

/-- without the store id in the key, store [2] quoting model [10] while store [1]'s own lookup is in flight gets store
[1]'s model — and keeps getting it from the memo after the flight has ended -/
theorem drop_store_leaks :
    ((run keyDropStore dsW (fun _ => true) (empty : St Bytes Req Nat)
      [.arrive ⟨[1], [10]⟩, .arrive ⟨[2], [10]⟩, .finish 0, .arrive ⟨[2], [10]⟩]).2.map (·.2) = [some 100, some 100, some 100]) ∧
    dsW ⟨[2], [10]⟩ = none := by decide

/-- without the model id in the key, a request for model [11] that overlaps one for model [10] of the same store gets [10] -/
theorem drop_model_leaks :
    ((run keyDropModel dsW (fun _ => true) (empty : St Bytes Req Nat)
      [.arrive ⟨[1], [10]⟩, .arrive ⟨[1], [11]⟩, .finish 0, .arrive ⟨[1], [11]⟩]).2.map (·.2) = [some 100, some 100, some 100]) ∧
    dsW ⟨[1], [11]⟩ = some 101 := by decide

/-! ## Non-vacuity -/

example : SlashFree ⟨[48, 49], [50]⟩ := by unfold SlashFree; decide

/-- two overlapping requests on different stores quoting the same model id, then a latest lookup: each gets its own answer -/
example :
    (run groupKey (dsOf (fun s m => if s = [65] ∧ m = [97] then some 7 else none) (fun _ => some 9)) memoById
      (empty : St Bytes Req Nat) [.arrive ⟨[65], [97]⟩, .arrive ⟨[66], [97]⟩, .arrive ⟨[66], []⟩]).2.map (·.2) = [some 7, none, some 9] := by
  decide

end OpenFGAVerif.ResolverKeys
