/-
Weighted-graph engine: what may be written to the edge cache (shared by C08 and C03).

An edge result is stored only when the evaluation ended without error AND the context is still live: a failed or
cancelled evaluation has no answer (`res = nil`), and `nil` read back from the cache behaves like "not allowed"
(`GetAllowed()` is nil-safe), so storing it would turn a transient fault into a cached denial.
-/
import OpenFGAVerif.Gen.CheckV2

namespace OpenFGAVerif.V2CacheGuards

/-- outcome of one edge evaluation -/
structure Eval where
  res : Option Bool     -- none = no response (error / cancelled)
  err : Bool
  cancelled : Bool

/-- the guard of the code -/
def stores (e : Eval) : Bool := !e.err && !e.cancelled

/-- the invariant every producer of `Eval` satisfies: a response exists iff there was no error -/
def WellFormed (e : Eval) : Prop := e.err = false → e.res.isSome

/-- what a later request reads back (nil-safe `GetAllowed`) -/
def readBack (e : Eval) : Bool := e.res.getD false

/-- under the guard only real answers enter the cache -/
theorem stored_is_answer (e : Eval) (hw : WellFormed e) (hs : stores e = true) : ∃ b, e.res = some b := by
  simp [stores] at hs
  exact Option.isSome_iff_exists.mp (hw hs.1)

/-- witness: without the `err == nil` conjunct a failed evaluation is stored and read back as a denial -/
example : ∃ e : Eval, e.err = true ∧ (!e.cancelled) = true ∧ readBack e = false ∧ e.res = none :=
  ⟨⟨none, true, false⟩, rfl, rfl, rfl, rfl⟩

/-- tie: both cache writes of internal/check/check.go carry the full guard -/
theorem tie_cache_set_guards : Gen.CheckV2.cacheSetGuards =
    ["ResolveUnionEdges:err == nil && ctx.Err() == nil", "ResolveRecursive:err == nil && ctx.Err() == nil"] := by
  decide

end OpenFGAVerif.V2CacheGuards
