/-
Weighted-graph recursive strategy (`internal/check/recursive.go: Recursive.execute`), part of C03: an error met while
the two seed sets are loaded is kept in `err`; the breadth-first match then runs on what was loaded.  A TRUE match
stands on its own (a witness was found); a FALSE match on truncated seed sets proves nothing, so the load error must
be returned with it (the caller then falls back to the default engine / reports the error) — otherwise a transient
datastore fault becomes a definitive "not allowed".
-/
import OpenFGAVerif.Gen.V2Recursive

namespace OpenFGAVerif.V2Recursive

/-- the tail of `execute`: (allowed, error) -/
def finish (loadErr : Option Nat) (matchAllowed : Bool) (matchErr : Option Nat) : Bool × Option Nat :=
  match matchErr with
  | some e => (matchAllowed, some e)
  | none => if matchAllowed then (true, none) else (false, loadErr)

/-- a definitive FALSE (no error) is only returned when neither the seed loading nor the match failed -/
theorem false_needs_complete_seeds (l : Option Nat) (a : Bool) (m : Option Nat)
    (h : finish l a m = (false, none)) : l = none ∧ m = none ∧ a = false := by
  unfold finish at h
  cases m with
  | some e => simp at h
  | none => cases a <;> simp_all

/-- a TRUE answer never carries the load error -/
theorem true_stands (l : Option Nat) (h : True) : finish l true none = (true, none) := by simp [finish]

/-- witness for the variant that returns the match outcome alone: a load error is lost -/
example : (fun (_ : Option Nat) (a : Bool) (m : Option Nat) => (a, m)) (some 7) false none = (false, none) := rfl

/-- tie: the tail of execute and the error operands of its early FALSE returns -/
theorem tie_execute_tail : Gen.V2Recursive.executeTail =
    ["res, errMatch := s.recursiveMatch(ctx, req, edge, recursiveType, idsFromUser, idsFromObject)",
     "if errMatch != nil { return res, errMatch }", "if res.Allowed { return res, nil }", "return res, err"] ∧
    Gen.V2Recursive.earlyFalseErrs = ["err", "err", "err"] := by decide

end OpenFGAVerif.V2Recursive
