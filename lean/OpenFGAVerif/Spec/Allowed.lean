/-
Specification for C18: which tuples an authorization model allows.  Core Lean only.

`allowed std limit m t` is written against the *grammar* of `Spec.TupleStr` (objects `type:id`, usersets
`type:id#relation`, split at the FIRST ':' / '#') and the model's declarations; it does not call any function of the
validation model.  Clause by clause it is the statement of the property:

  1. the object is a concrete object `typ:id` whose type is declared, and the relation is declared on that type;
  2. the user matches one of the relation's type restrictions — `typ` (a concrete object of that type), `typ:*`
     (the typed wildcard itself) or `typ#rel` (a userset `typ:id#rel`) — and THAT restriction carries exactly the
     tuple's condition (none, or the named one);
  3. a tupleset relation (the `parent` of `viewer from parent`) only receives concrete objects;
  4. a conditioned tuple names a declared condition, its context has no control characters, only declared parameters,
     every supplied parameter converts to its declared type, and the encoded context is at most `limit` bytes;
  5. the user is not the userset `object#relation` of the tuple itself.

The data types (`Model`, `Restr`, `Tuple`, …) and the two measuring functions that are not the subject of this property
(`fieldsForbidden` = control characters, `fieldsSize` = protobuf size; `Condition.convert` = C25's parameter conversion)
are shared with the model.
-/
import OpenFGAVerif.Spec.TupleStr
import OpenFGAVerif.Model.Validation

namespace OpenFGAVerif.Spec.Allowed
open OpenFGAVerif.Spec.TupleStr
open OpenFGAVerif.Model.Validation (Model TypeDef RelDef Restr RKind Tuple CondDef fieldsForbidden forbiddenBytes fieldsSize)
open OpenFGAVerif.Model.Condition (Ctx Std TypeRef PVal getLast decode convert asInterface Res)

open OpenFGAVerif.Model.TupleStr (Bytes)

/-- the part of a user string after its type: `some (typ, rest)` for `typ:rest` -/
def typed (s : Bytes) : Option (Bytes × Bytes) := splitFirst 58 s

/-- restriction `r` admits the user string `u` -/
def userMatches (r : Restr) (u : Bytes) : Bool :=
  match r.kind with
  | .obj =>
    -- a concrete object `typ:id`
    grammarObjectB u && (match typed u with | some (ut, id) => ut == r.typ && id != [42] | none => false)
  | .wild =>
    -- the typed wildcard `typ:*`
    grammarObjectB u && (match typed u with | some (ut, id) => ut == r.typ && id == [42] | none => false)
  | .rel x =>
    -- a userset `typ:id#x`
    grammarUsersetB u &&
    (match typed u with
     | some (ut, rest) => ut == r.typ && (match splitFirst 35 rest with | some (_, ur) => ur == x | none => false)
     | none => false)

/-- the condition name a tuple carries ("" = none) -/
def condName (t : Tuple) : Bytes := match t.cond with | none => [] | some (n, _) => n

/-- a concrete object: `type:id`, not a wildcard -/
def concreteObject (u : Bytes) : Bool :=
  grammarObjectB u && (match typed u with | some (_, id) => id != [42] | none => false)

/-- every key of the context is a declared parameter -/
def keysDeclared (cd : CondDef) (ctx : Ctx) : Bool := ctx.all (fun kv => cd.params.any (fun p => p.1 == kv.1))

/-- every declared parameter that the context supplies converts to its declared type -/
def paramsConvert (std : Std) (cd : CondDef) (ctx : Ctx) : Bool :=
  cd.params.all (fun p =>
    match getLast ctx p.1 with
    | none => true
    | some pv =>
      match decode p.2 with
      | none => false
      | some ty => (match convert std ty (asInterface pv) with | .ok _ => true | _ => false))

def ctxOK (std : Std) (limit : Option Nat) (m : Model) (t : Tuple) : Bool :=
  match t.cond with
  | none => true
  | some (name, ctx) =>
    !forbiddenBytes name &&
    (match m.conds.find? (·.name == name) with
     | none => false
     | some cd => !fieldsForbidden ctx && keysDeclared cd ctx && paramsConvert std cd ctx) &&
    (match limit with | none => true | some l => fieldsSize ctx ≤ l)

/-- clauses 1–4 for a given way of relating the user and the condition to the restrictions -/
def allowedWith (restrOK : RelDef → Tuple → Bool) (sizeLimit : Option Nat) (selfRefOK : Bool)
    (std : Std) (m : Model) (t : Tuple) : Bool :=
  match typed t.obj with
  | none => false
  | some (typ, id) =>
    grammarObjectB t.obj && id != [42] && grammarRelationB t.rel &&
    (match m.types.find? (·.name == typ) with
     | none => false
     | some td =>
       match td.rels.find? (·.name == t.rel) with
       | none => false
       | some rd =>
         restrOK rd t &&
         (!td.tuplesets.contains t.rel || (rd.direct && concreteObject t.user)) &&
         ctxOK std sizeLimit m t &&
         (selfRefOK || t.user != t.obj ++ 35 :: t.rel))

/-- clause 2, as the property states it: ONE restriction matches the user and carries the tuple's condition -/
def restrStrict (rd : RelDef) (t : Tuple) : Bool :=
  rd.restrs.any (fun r => userMatches r t.user && r.cond == condName t)

/-- **the specification**: `allowed std limit m t` -/
def allowed (std : Std) (limit : Nat) (m : Model) (t : Tuple) : Bool :=
  allowedWith restrStrict (some limit) false std m t

def Allowed (std : Std) (limit : Nat) (m : Model) (t : Tuple) : Prop := allowed std limit m t = true

/-! ### what the code accepts instead (exact characterisation, proved in Props/C18) -/

/-- the type of a user string: the part before the first ':' ("" if there is none) -/
def userTypeOf (u : Bytes) : Bytes := match typed u with | some (ut, _) => ut | none => []

/-- the relation of a userset string ("" for objects and wildcards) -/
def userRelOf (u : Bytes) : Bytes :=
  match typed u with
  | some (_, rest) => (match splitFirst 35 rest with | some (_, ur) => ur | none => [])
  | none => []

def isStar (u : Bytes) : Bool := match typed u with | some (_, id) => id == [42] | none => false

/-- clause 2 as the code implements it: one restriction matches the user's shape, and — separately — SOME restriction of
the same user TYPE carries the condition name (conditioned tuple), or some unconditioned restriction of the same type is
"compatible" (unconditioned tuple: a plain restriction is compatible with every non-wildcard user, usersets included). -/
def restrLoose (rd : RelDef) (t : Tuple) : Bool :=
  rd.restrs.any (fun r => userMatches r t.user) &&
  (match t.cond with
   | none =>
     rd.restrs.any (fun r =>
       r.cond == [] && r.typ == userTypeOf t.user &&
       (match r.kind with
        | .obj => !isStar t.user
        | .wild => isStar t.user
        | .rel x => x == [] || x == userRelOf t.user))
   | some (name, _) => rd.restrs.any (fun r => r.typ == userTypeOf t.user && r.cond == name))

/-- what `WriteCommand` accepts -/
def acceptedByWrite (std : Std) (limit : Nat) (m : Model) (t : Tuple) : Bool :=
  allowedWith restrLoose (some limit) false std m t

/-- what the contextual-tuple path accepts: no size limit, no self-reference check -/
def acceptedAsContextual (std : Std) (m : Model) (t : Tuple) : Bool :=
  allowedWith restrLoose none true std m t

/-- the hypothesis that excludes the condition gap for one relation and one user: every restriction of the user's type
that could lend its condition (or its absence) also matches the user's shape -/
def NoCondGap (rd : RelDef) (t : Tuple) : Prop :=
  ∀ r ∈ rd.restrs, r.typ = userTypeOf t.user → r.cond = condName t → userMatches r t.user = true

/-- what model validation guarantees about type restrictions (C17: `validateTypeRestrictions`): the referenced type is
declared and, for `type#relation`, the relation is non-empty and declared on that type -/
def RestrsWF (m : Model) : Prop :=
  ∀ td ∈ m.types, ∀ rd ∈ td.rels, ∀ r ∈ rd.restrs,
    (m.findType r.typ).isSome = true ∧
    ∀ x, r.kind = .rel x → x ≠ [] ∧ ∃ rd', m.getRelation r.typ x = .found rd'

/-- a relation does not mix conditions across the shapes of one user type: whatever condition (or absence of one) some
restriction of type `ut` carries is also carried by a restriction of every shape (`ut`, `ut:*`, `ut#rel`) that the
relation declares for `ut` -/
def UniformConds (rd : RelDef) : Prop :=
  ∀ r ∈ rd.restrs, ∀ r' ∈ rd.restrs, r.typ = r'.typ →
    ∃ r'' ∈ rd.restrs, r''.typ = r'.typ ∧ r''.kind = r'.kind ∧ r''.cond = r.cond

end OpenFGAVerif.Spec.Allowed
