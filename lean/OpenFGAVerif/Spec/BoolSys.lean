/-
Specification layer for every query engine: monotone boolean equation systems with three-valued
leaves and stratified negation, and their least-fixpoint semantics.

A relationship query ("does subject u hold relation r on object o?") is a node `n : N`; the
authorization model together with the tuples (stored and contextual) gives every node a *rule*
`rule n : Expr N` (built by `Model.CheckV1.ruleOf`, one step of rewriting):

    direct / wildcard tuple        → `lit tt | ff | err | errSw`   (condition outcome of the tuple)
    userset tuple, computed, TTU   → `node dispatch n'`
    union / intersection           → `or es` / `and es`
    exclusion (but not)            → `diff base sub`

`Holds leaf neg S e` is the truth of expression `e` when the nodes in `S` are true; `leaf` says which
leaf values count as true (definite semantics `leafD`: only `tt`; possible semantics `leafP`:
everything except `ff`, i.e. an unevaluable condition *may* be true) and `neg s` is the truth of
"the subtracted operand `s` does not hold", supplied by the other polarity one stratum below.

`lfp V` is the least fixpoint of the one-step operator, as the union of its Kleene iterates, for the
system in which the nodes of `V` are forced to be false (`V` = the path of an in-progress
depth-first evaluation).  `lfp []` is the semantics the properties talk about.
-/
namespace OpenFGAVerif.BoolSys

/-- value of a leaf: a tuple whose condition holds / does not hold / cannot be evaluated and the
error is reported / cannot be evaluated and the error is swallowed by the iterator. -/
inductive Leaf where
  | tt | ff | err | errSw
  deriving DecidableEq, Repr

inductive Expr (N : Type) where
  | lit (v : Leaf)
  | node (dispatch : Bool) (n : N)
  | or (es : List (Expr N))
  | and (es : List (Expr N))
  | diff (base sub : Expr N)

structure Sys (N : Type) where
  rule : N → Expr N

def leafD : Leaf → Prop := fun v => v = .tt
def leafP : Leaf → Prop := fun v => v ≠ .ff

theorem leafD_imp_leafP {v : Leaf} (h : leafD v) : leafP v := by
  unfold leafD at h; unfold leafP; subst h; intro c; cases c

inductive Holds {N : Type} (leaf : Leaf → Prop) (neg : Expr N → Prop) (S : N → Prop) : Expr N → Prop
  | lit {v : Leaf} : leaf v → Holds leaf neg S (.lit v)
  | node {d : Bool} {n : N} : S n → Holds leaf neg S (.node d n)
  | or {es : List (Expr N)} {e : Expr N} : e ∈ es → Holds leaf neg S e → Holds leaf neg S (.or es)
  | and {es : List (Expr N)} : (∀ e ∈ es, Holds leaf neg S e) → Holds leaf neg S (.and es)
  | diff {b s : Expr N} : Holds leaf neg S b → neg s → Holds leaf neg S (.diff b s)

section
variable {N : Type} (sys : Sys N) (leaf : Leaf → Prop) (neg : Expr N → Prop)

theorem Holds.mono {S T : N → Prop} (hST : ∀ n, S n → T n) {e : Expr N}
    (h : Holds leaf neg S e) : Holds leaf neg T e := by
  induction h with
  | lit hv => exact .lit hv
  | node hn => exact .node (hST _ hn)
  | or hm _ ih => exact .or hm ih
  | and _ ih => exact .and ih
  | diff _ hn ih => exact .diff ih hn

/-- k-th Kleene iterate of the one-step operator, nodes of `V` forced false. -/
def iter (V : List N) : Nat → N → Prop
  | 0, _ => False
  | k + 1, n => n ∉ V ∧ Holds leaf neg (iter V k) (sys.rule n)

/-- least fixpoint (nodes of `V` forced false). -/
def lfp (V : List N) (n : N) : Prop := ∃ k, iter sys leaf neg V k n

theorem iter_succ_mono (V : List N) : ∀ k n, iter sys leaf neg V k n → iter sys leaf neg V (k + 1) n := by
  intro k
  induction k with
  | zero => intro n h; exact h.elim
  | succ k ih =>
    intro n h
    exact ⟨h.1, Holds.mono leaf neg ih h.2⟩

theorem iter_mono (V : List N) {j k : Nat} (hjk : j ≤ k) :
    ∀ n, iter sys leaf neg V j n → iter sys leaf neg V k n := by
  induction hjk with
  | refl => intro n h; exact h
  | step _ ih => intro n h; exact iter_succ_mono sys leaf neg V _ n (ih n h)

theorem iter_le_lfp (V : List N) (k : Nat) : ∀ n, iter sys leaf neg V k n → lfp sys leaf neg V n :=
  fun _ h => ⟨k, h⟩

/-- forcing more nodes false only shrinks the iterates -/
theorem iter_antitone {V W : List N} (hVW : ∀ n, n ∈ V → n ∈ W) :
    ∀ k n, iter sys leaf neg W k n → iter sys leaf neg V k n := by
  intro k
  induction k with
  | zero => intro n h; exact h
  | succ k ih =>
    intro n h
    exact ⟨fun hv => h.1 (hVW n hv), Holds.mono leaf neg ih h.2⟩

theorem lfp_antitone {V W : List N} (hVW : ∀ n, n ∈ V → n ∈ W) :
    ∀ n, lfp sys leaf neg W n → lfp sys leaf neg V n := by
  intro n ⟨k, h⟩; exact ⟨k, iter_antitone sys leaf neg hVW k n h⟩

theorem exists_bound {α : Type} (Q : Nat → α → Prop) (hmono : ∀ j k a, j ≤ k → Q j a → Q k a)
    (es : List α) (h : ∀ e ∈ es, ∃ k, Q k e) : ∃ K, ∀ e ∈ es, Q K e := by
  induction es with
  | nil => exact ⟨0, fun _ hm => by cases hm⟩
  | cons a as ih =>
    obtain ⟨ka, hka⟩ := h a (by simp)
    obtain ⟨K, hK⟩ := ih (fun e he => h e (by simp [he]))
    refine ⟨max ka K, ?_⟩
    intro e he
    rcases List.mem_cons.mp he with rfl | he
    · exact hmono _ _ _ (Nat.le_max_left _ _) hka
    · exact hmono _ _ _ (Nat.le_max_right _ _) (hK e he)

/-- expressions are finite, so truth under the least fixpoint is reached at a finite stage -/
theorem Holds.finite_stage (V : List N) {e : Expr N}
    (h : Holds leaf neg (lfp sys leaf neg V) e) : ∃ k, Holds leaf neg (iter sys leaf neg V k) e := by
  induction h with
  | lit hv => exact ⟨0, .lit hv⟩
  | node hn => obtain ⟨k, hk⟩ := hn; exact ⟨k, .node hk⟩
  | or hm _ ih => obtain ⟨k, hk⟩ := ih; exact ⟨k, .or hm hk⟩
  | @and es _ ih =>
    obtain ⟨K, hK⟩ := exists_bound (fun k e => Holds leaf neg (iter sys leaf neg V k) e)
      (fun j k a hjk hq => Holds.mono leaf neg (iter_mono sys leaf neg V hjk) hq) es ih
    exact ⟨K, .and hK⟩
  | diff _ hn ih => obtain ⟨k, hk⟩ := ih; exact ⟨k, .diff hk hn⟩

/-- `lfp V` is closed under the one-step operator … -/
theorem lfp_closed (V : List N) (n : N) (hn : n ∉ V)
    (h : Holds leaf neg (lfp sys leaf neg V) (sys.rule n)) : lfp sys leaf neg V n := by
  obtain ⟨k, hk⟩ := Holds.finite_stage sys leaf neg V h
  exact ⟨k + 1, hn, hk⟩

/-- … and every member is justified by it (so it is a fixpoint). -/
theorem lfp_unfold (V : List N) (n : N) (h : lfp sys leaf neg V n) :
    n ∉ V ∧ Holds leaf neg (lfp sys leaf neg V) (sys.rule n) := by
  obtain ⟨k, hk⟩ := h
  cases k with
  | zero => exact hk.elim
  | succ k => exact ⟨hk.1, Holds.mono leaf neg (iter_le_lfp sys leaf neg V k) hk.2⟩

/-- least: contained in every set closed under the operator -/
theorem lfp_least (V : List N) (S : N → Prop)
    (hS : ∀ n, n ∉ V → Holds leaf neg S (sys.rule n) → S n) : ∀ n, lfp sys leaf neg V n → S n := by
  intro n ⟨k, hk⟩
  induction k generalizing n with
  | zero => exact hk.elim
  | succ k ih => exact hS n hk.1 (Holds.mono leaf neg (fun m hm => ih m hm) hk.2)

theorem exists_first_stage (V : List N) (n : N) :
    ∀ k, iter sys leaf neg V k n → ∃ j, iter sys leaf neg V (j + 1) n ∧ ¬ iter sys leaf neg V j n := by
  intro k
  induction k with
  | zero => intro h; exact h.elim
  | succ k ih =>
    intro h
    by_cases hk : iter sys leaf neg V k n
    · exact ih hk
    · exact ⟨k, h, hk⟩

/-- **Path lemma** (why a depth-first evaluation may treat the nodes on its own path as false):
a member `n` of the least fixpoint has a justification that does not go through `n` again. -/
theorem lfp_path (V : List N) (n : N) (h : lfp sys leaf neg V n) :
    Holds leaf neg (lfp sys leaf neg (n :: V)) (sys.rule n) := by
  obtain ⟨k0, hk0⟩ := h
  obtain ⟨k, hk1, hk⟩ := exists_first_stage sys leaf neg V n k0 hk0
  have sub : ∀ j, j ≤ k → ∀ m, iter sys leaf neg V j m → iter sys leaf neg (n :: V) j m := by
    intro j
    induction j with
    | zero => intro _ m hm; exact hm
    | succ j ih =>
      intro hj m hm
      have hmn : m ≠ n := by
        intro e; subst e
        exact hk (iter_mono sys leaf neg V hj m hm)
      refine ⟨?_, Holds.mono leaf neg (ih (Nat.le_of_succ_le hj)) hm.2⟩
      intro hmem
      rcases List.mem_cons.mp hmem with e | hmV
      · exact hmn e
      · exact hm.1 hmV
  exact Holds.mono leaf neg (fun m hm => iter_le_lfp sys leaf neg (n :: V) k m (sub k (Nat.le_refl k) m hm)) hk1.2

end

/-- An interpretation of the subtracted operands: `negD s` = "`s` possibly-holds is false" (used by the
definite semantics), `negP s` = "`s` definitely-holds is false" (used by the possible semantics). -/
structure Interp (N : Type) where
  negD : Expr N → Prop
  negP : Expr N → Prop

/-- definite semantics: conditions that cannot be evaluated count as false -/
def D {N : Type} (sys : Sys N) (I : Interp N) (V : List N) : N → Prop := lfp sys leafD I.negD V
/-- possible semantics: conditions that cannot be evaluated count as true -/
def P {N : Type} (sys : Sys N) (I : Interp N) (V : List N) : N → Prop := lfp sys leafP I.negP V

abbrev HoldsD {N : Type} (sys : Sys N) (I : Interp N) (V : List N) (e : Expr N) : Prop :=
  Holds leafD I.negD (D sys I V) e
abbrev HoldsP {N : Type} (sys : Sys N) (I : Interp N) (V : List N) (e : Expr N) : Prop :=
  Holds leafP I.negP (P sys I V) e

/-- The interpretation is the stratified one: a subtracted operand is "definitely not holding" exactly
when it does not possibly hold, and "possibly not holding" exactly when it does not definitely hold —
both read off the global semantics (`V = []`).  For a model without negation through recursion such
an interpretation exists and is unique (strata are evaluated bottom-up). -/
def Coherent {N : Type} (sys : Sys N) (I : Interp N) : Prop :=
  ∀ s, (I.negD s ↔ ¬ HoldsP sys I [] s) ∧ (I.negP s ↔ ¬ HoldsD sys I [] s)

/-- Consistency of the two polarities: whatever definitely holds possibly holds. -/
theorem D_sub_P {N : Type} (sys : Sys N) (I : Interp N)
    (hneg : ∀ s, I.negD s → I.negP s) (V : List N) : ∀ n, D sys I V n → P sys I V n := by
  intro n ⟨k, hk⟩
  refine ⟨k, ?_⟩
  induction k generalizing n with
  | zero => exact hk.elim
  | succ k ih =>
    refine ⟨hk.1, ?_⟩
    have : ∀ e, Holds leafD I.negD (iter sys leafD I.negD V k) e →
        Holds leafP I.negP (iter sys leafP I.negP V k) e := by
      intro e he
      induction he with
      | lit hv => exact .lit (leafD_imp_leafP hv)
      | node hn => exact .node (ih _ hn)
      | or hm _ ih2 => exact .or hm ih2
      | and _ ih2 => exact .and ih2
      | diff _ hn ih2 => exact .diff ih2 (hneg _ hn)
    exact this _ hk.2

end OpenFGAVerif.BoolSys
