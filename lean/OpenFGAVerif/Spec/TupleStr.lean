/-
Spec for C29: the documented grammar of objects, relations, user ids, usersets and users, stated
directly over BYTES — no UTF-8 decoder, no state machine.  Core Lean only; independent of `Model`.

"No control character" at the byte level:
  * no byte 0x00–0x1F and no 0x7F (the ASCII controls, TAB/LF/CR included), and
  * no byte 0xC2 immediately followed by a byte 0x80–0x9F (the only well-formed UTF-8 encoding of the
    C1 controls U+0080–U+009F; over-long forms are invalid UTF-8, decode to U+FFFD and are accepted).
"No space" is the byte 0x20 only.  Every other byte sequence — multi-byte characters, Unicode spaces
such as U+00A0 or U+3000, invalid UTF-8 — is an ordinary character of the grammar.
-/
namespace OpenFGAVerif.Spec.TupleStr


/-- ASCII control byte (U+0000–U+001F, U+007F). -/
def asciiCtl (b : UInt8) : Bool := b < 0x20 || b == 0x7F

/-- `t` starts with the second byte of a C1 control (0x80–0x9F). -/
def startsC1 : List UInt8 → Bool
  | x :: _ => 0x80 ≤ x && x ≤ 0x9F
  | [] => false

/-- the byte `b`, followed by `t`, is an ordinary character start w.r.t. the excluded bytes -/
def okHead (excl : List UInt8) (b : UInt8) (t : List UInt8) : Bool :=
  !excl.contains b && !asciiCtl b && !(b == 0xC2 && startsC1 t)

/-- A run of ordinary characters: none of the excluded (ASCII) bytes, no control character. -/
def plain (excl : List UInt8) : List UInt8 → Bool
  | [] => true
  | b :: t => okHead excl b t && plain excl t

/-- separators excluded from the parts of an object: ':' '#' ' ' -/
def exObject : List UInt8 := [58, 35, 32]
/-- excluded from a relation: ':' '#' '@' ' ' -/
def exRelation : List UInt8 := [58, 35, 64, 32]
/-- excluded from a user id: ':' '#' ' ' -/
def exUserID : List UInt8 := [58, 35, 32]
/-- excluded from the id and relation part of a userset: ':' '#' ' ' '*' -/
def exUsersetTail : List UInt8 := [58, 35, 32, 42]

/-- `type:id` — exactly one ':', non-empty type and id, no '#', no space, no control character. -/
def GrammarObject (s : List UInt8) : Prop :=
  ∃ t i, s = t ++ 58 :: i ∧ t ≠ [] ∧ i ≠ [] ∧ plain exObject t = true ∧ plain exObject i = true

/-- non-empty, no ':' '#' '@', no space, no control character. -/
def GrammarRelation (s : List UInt8) : Prop := s ≠ [] ∧ plain exRelation s = true

/-- non-empty, no ':' '#', no space, no control character. -/
def GrammarUserID (s : List UInt8) : Prop := s ≠ [] ∧ plain exUserID s = true

/-- `type:id#relation` — one type prefix, one relation, all three parts non-empty; id and relation
contain no '*'. -/
def GrammarUserset (s : List UInt8) : Prop :=
  ∃ t i r, s = t ++ 58 :: (i ++ 35 :: r) ∧ t ≠ [] ∧ i ≠ [] ∧ r ≠ [] ∧
    plain exObject t = true ∧ plain exUsersetTail i = true ∧ plain exUsersetTail r = true

def GrammarUser (s : List UInt8) : Prop :=
  s = [42] ∨ GrammarUserID s ∨ GrammarObject s ∨ GrammarUserset s

/-! ### executable versions (used by the driver; proved equivalent in `Props/C29.lean`) -/

/-- split at the first occurrence of `c` -/
def splitFirst (c : UInt8) : List UInt8 → Option (List UInt8 × List UInt8)
  | [] => none
  | x :: xs =>
    if x = c then some ([], xs)
    else match splitFirst c xs with
      | none => none
      | some (l, r) => some (x :: l, r)

def grammarObjectB (s : List UInt8) : Bool :=
  match splitFirst 58 s with
  | none => false
  | some (t, i) => t ≠ [] && i ≠ [] && plain exObject t && plain exObject i

def grammarRelationB (s : List UInt8) : Bool := s ≠ [] && plain exRelation s
def grammarUserIDB (s : List UInt8) : Bool := s ≠ [] && plain exUserID s

def grammarUsersetB (s : List UInt8) : Bool :=
  match splitFirst 58 s with
  | none => false
  | some (t, rest) =>
    match splitFirst 35 rest with
    | none => false
    | some (i, r) =>
      t ≠ [] && i ≠ [] && r ≠ [] && plain exObject t && plain exUsersetTail i && plain exUsersetTail r

def grammarUserB (s : List UInt8) : Bool :=
  s == [42] || grammarUserIDB s || grammarObjectB s || grammarUsersetB s

end OpenFGAVerif.Spec.TupleStr
