/-
Vocabulary shared by every engine model: authorization models, tuples, requests.

Objects, users and relations are the strings the Go code manipulates (`type:id`, `type:*`,
`type:id#relation`); the string-level functions used here (`typeOf`, `splitUserset`, …) are the
ASCII-separator cases of `pkg/tuple`, verified separately by C29.

Conditions are abstracted to a tiny fragment that is enough to produce the three outcomes the engines
distinguish (met / not met / cannot be evaluated): one integer parameter compared with a constant.
Full CEL typing is C25's business.
-/
namespace OpenFGAVerif.Vocab

/-! ### strings -/

/-- `tuple.GetType` / first component of `SplitObject`: the part before the first ':' ("" if none). -/
def typeOf (s : String) : String :=
  match s.splitOn ":" with
  | t :: _ :: _ => t
  | _ => ""

/-- `tuple.SplitObjectRelation`: split at the last '#'. -/
def splitUserset (s : String) : String × String :=
  match (s.splitOn "#").reverse with
  | [] => (s, "")
  | [_] => (s, "")
  | r :: rest => ("#".intercalate rest.reverse, r)

def isUserset (s : String) : Bool := (splitUserset s).2 ≠ ""

/-- `tuple.IsTypedWildcard`: `type:*` -/
def isTypedWildcard (s : String) : Bool := s.endsWith ":*" && !isUserset s

/-- type of a user string (`user:x`, `user:*`, `group:a#member` ↦ `user`, `user`, `group`) -/
def userType (s : String) : String := typeOf (splitUserset s).1
def userRel (s : String) : String := (splitUserset s).2

/-! ### models -/

inductive Rewrite where
  | this
  | computed (rel : String)
  | ttu (tupleset computed : String)
  | union (cs : List Rewrite)
  | inter (cs : List Rewrite)
  | diff (base sub : Rewrite)
  deriving Repr, Inhabited

/-- a type restriction: `user`, `user:*`, `group#member`, each optionally `with cond` -/
structure Restr where
  typ : String
  rel : String      -- "" unless a userset restriction
  wild : Bool
  cond : String     -- "" = unconditioned
  deriving Repr, DecidableEq, Inhabited

structure RelDef where
  name : String
  rewrite : Rewrite
  restrs : List Restr
  deriving Repr, Inhabited

structure TypeDef where
  name : String
  rels : List RelDef
  deriving Repr, Inhabited

inductive CmpOp where
  | lt | le | eq | ne | ge | gt
  deriving Repr, DecidableEq, Inhabited

/-- condition `name(param: int) { param op const }` -/
structure CondDef where
  name : String
  param : String
  op : CmpOp
  const : Int
  deriving Repr, Inhabited

structure Model where
  types : List TypeDef
  conds : List CondDef
  deriving Repr, Inhabited

abbrev Ctx := List (String × Int)

structure Tuple where
  obj : String
  rel : String
  user : String
  cond : String     -- "" = no condition
  ctx : Ctx
  deriving Repr, DecidableEq, Inhabited

structure Req where
  obj : String
  rel : String
  user : String
  ctx : Ctx
  deriving Repr, Inhabited

def Model.findRel (m : Model) (typ rel : String) : Option RelDef :=
  match m.types.find? (·.name = typ) with
  | none => none
  | some t => t.rels.find? (·.name = rel)

def Model.findCond (m : Model) (name : String) : Option CondDef :=
  m.conds.find? (·.name = name)

/-- all tuple-to-userset rewrites inside a rewrite, as (tupleset, computed) -/
def Rewrite.ttus : Rewrite → List (String × String)
  | .this => []
  | .computed _ => []
  | .ttu ts cr => [(ts, cr)]
  | .union cs => cs.flatMap Rewrite.ttus
  | .inter cs => cs.flatMap Rewrite.ttus
  | .diff b s => b.ttus ++ s.ttus

/-- `typesystem.IsTuplesetRelation`: some relation of the type has a `… from rel` rewrite -/
def Model.isTuplesetRelation (m : Model) (typ rel : String) : Bool :=
  match m.types.find? (·.name = typ) with
  | none => false
  | some t => t.rels.any (fun rd => rd.rewrite.ttus.any (fun p => p.1 = rel))

/-! ### conditions -/

inductive CondVal where
  | tt | ff | err
  deriving Repr, DecidableEq, Inhabited

def CmpOp.eval (op : CmpOp) (a b : Int) : Bool :=
  match op with
  | .lt => a < b | .le => a ≤ b | .eq => a = b | .ne => a ≠ b | .ge => a ≥ b | .gt => a > b

def ctxLookup (c : Ctx) (k : String) : Option Int := (c.find? (·.1 = k)).map (·.2)

/-- `eval.EvaluateTupleCondition`: no condition ⇒ met; unknown condition ⇒ error; the tuple's stored
context overrides the request context; a missing parameter is an error. -/
def evalCond (m : Model) (reqCtx : Ctx) (t : Tuple) : CondVal :=
  if t.cond = "" then .tt
  else match m.findCond t.cond with
    | none => .err
    | some cd =>
      match (ctxLookup t.ctx cd.param).orElse (fun _ => ctxLookup reqCtx cd.param) with
      | none => .err
      | some v => if cd.op.eval v cd.const then .tt else .ff

end OpenFGAVerif.Vocab
