#!/bin/sh
# setup_cmd: build the framework from files on disk only (offline).
#  1. extractor -> lean/OpenFGAVerif/Gen/*.lean (regenerated from /repo)
#  2. lake build of the whole Lean library (all models, proofs, drivers)
#  3. every correspondence harness, built against /repo's working tree with -tags verif
set -e
cd "$(dirname "$0")"
mkdir -p .build/bin .build/work evidence replays
export GOFLAGS=-mod=mod GOPROXY=off
unset GOSUMDB GOTOOLCHAIN || true
(cd extract && GOTOOLCHAIN=local go build -o ../.build/bin/extract .)
./.build/bin/extract -repo "${VERIF_REPO:-/repo}" -gen lean/OpenFGAVerif/Gen -facts .build/facts.json
python3 tools/gen_root.py
# only what the registered checks (checks/C*.json) need: their property and driver modules, their harness
MODS=$(python3 - <<'PY'
import json,glob
ms=set()
for f in sorted(glob.glob("checks/C*.json")):
    c=json.load(open(f)); ms.add(c["lean_module"]); 
    if c.get("driver_module"): ms.add(c["driver_module"])
print(" ".join(sorted(ms)))
PY
)
(cd lean && lake build $MODS) || echo "setup: some Lean modules failed to build; the checks that need them will report it"
cp "${VERIF_REPO:-/repo}/go.sum" harness/go.sum
HS=$(python3 - <<'PY'
import json,glob
print(" ".join(sorted({json.load(open(f))["harness"] for f in glob.glob("checks/C*.json")})))
PY
)
for n in $HS; do
  echo "building harness $n"
  (cd harness && CGO_ENABLED=0 go build -tags verif -o ../.build/bin/$n ./$n)
done
echo setup-ok
