#!/bin/bash
# usage: tools/confirm_mutant.sh <mutant-dir> <seeded-id>
# Confirms a blind mutant in a scratch worktree: applies, builds, runs the tests of the touched packages, runs the
# demonstration with the patch (must fail) and without it (must pass); then copies it to seeded/<id>/ with a log.
set -u
M=$1; ID=$2
WT=/tmp/wt_confirm_$$
export GOFLAGS=-mod=mod GOPROXY=off
OUT=/verif/seeded/$ID
mkdir -p $OUT
LOG=$OUT/confirm.log
: > $LOG
git -C /repo worktree add --detach $WT >/dev/null 2>&1 || { echo "worktree failed"; exit 3; }
cleanup() { git -C /repo worktree remove --force $WT >/dev/null 2>&1; }
trap cleanup EXIT
if ! git -C $WT apply $M/patch.diff 2>>$LOG; then echo "RESULT patch-does-not-apply" | tee -a $LOG; exit 4; fi
( cd $WT && go build ./... ) >>$LOG 2>&1 && echo "build: ok" >>$LOG || { echo "RESULT build-failed" | tee -a $LOG; exit 5; }
PKGS=$(git -C $WT diff --name-only | grep '\.go$' | xargs -n1 dirname | sort -u | sed 's|^|./|')
echo "touched packages: $PKGS" >>$LOG
( cd $WT && go test -vet=off -count=1 $PKGS 2>&1 | grep -v "^ok\|no test files" | grep -iv docker | head -20 ) >>$LOG 2>&1
echo "existing tests of touched packages: done (non-ok lines above, docker-only failures ignored)" >>$LOG
DEMO=$(jq -r .demo_cmd $M/meta.json)
echo "demo: $DEMO" >>$LOG
# demo commands without their own `cp`: place the demonstration files where meta.json says (demo_files) or in the
# package directory named by the command
place_demo() {
  case "$DEMO" in *"cp "*) return;; esac
  DF=$(jq -r '(.demo_files // [])[]' $M/meta.json 2>/dev/null)
  if [ -n "$DF" ]; then
    for f in $DF; do mkdir -p $WT/$(dirname $f); src=$M/$(basename $f); [ -f "$src" ] || src=$(ls $M/*_test.go | head -1); cp $src $WT/$f; done
  else
    PKG=$(echo "$DEMO" | grep -o '\./[A-Za-z0-9_/.-]*' | grep -v '\.\.\.' | tail -1)
    [ -n "$PKG" ] && mkdir -p $WT/$PKG && cp $M/*_test.go $WT/$PKG/
  fi
}
place_demo
( cd $WT && bash -c "$DEMO" ) >$OUT/demo_with_patch.log 2>&1; RC1=$?
git -C $WT apply -R $M/patch.diff
( cd $WT && bash -c "$DEMO" ) >$OUT/demo_without_patch.log 2>&1; RC0=$?
echo "demo with patch rc=$RC1 (expect !=0), without patch rc=$RC0 (expect 0)" | tee -a $LOG
cp $M/patch.diff $OUT/patch.diff; cp $M/*.go $OUT/ 2>/dev/null; cp $M/meta.json $OUT/meta.agent.json
if grep -q "no tests to run\|no test files" $OUT/demo_without_patch.log; then echo "demo did not run (no tests found)" | tee -a $LOG; RC0=99; fi
if [ $RC1 -ne 0 ] && [ $RC0 -eq 0 ]; then echo "RESULT confirmed" | tee -a $LOG; else echo "RESULT not-confirmed" | tee -a $LOG; fi
