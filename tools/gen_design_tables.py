#!/usr/bin/env python3
"""Regenerates the generated parts of DESIGN.md (between <!-- GEN:<name> --> and <!-- /GEN:<name> --> markers):
  findings   : table of known / fixed findings from known-findings.json
  asbuilt    : per-property as-built table from checks/Cxx.json
  seeded     : which check catches which seeded change, from seeded/*/meta.json
Nothing here is read by a check; it only keeps the document in step with the files the checks do read."""
import glob, json, os, re
root = os.path.join(os.path.dirname(os.path.abspath(__file__)), "..")
def esc(s): return (s or "").replace("|", "/").replace("\n", " ")

def findings():
    k = json.load(open(os.path.join(root, "known-findings.json")))["findings"]
    out = ["| id | property | status | what |", "|---|---|---|---|"]
    for f in sorted(k, key=lambda f: (f.get("kind") != "known", f["property"], f["id"])):
        st = "known" if f.get("kind") == "known" else f"**fixed** `{f.get('commit','')}`"
        out.append(f"| {f['id']} | {f['property']} | {st} | {esc(f.get('what'))[:420]} |")
    return "\n".join(out)

def asbuilt():
    out = ["| property | proof module (+ counted proof modules) | audited theorems (of which `tie_*`) | regenerated fact groups | harness: quick / thorough cases |",
           "|---|---|---|---|---|"]
    for f in sorted(glob.glob(os.path.join(root, "checks", "C*.json"))):
        c = json.load(open(f)); pid = os.path.basename(f)[:-5]
        th = c.get("theorems", []); ties = [t for t in th if ".tie_" in t or t.split(".")[-1].startswith("tie")]
        mods = [c.get("lean_module", "")] + [m for m in c.get("count_modules", []) if m != c.get("lean_module")]
        mods = [m.replace("OpenFGAVerif.", "") for m in mods]
        cs = c.get("cases", {})
        out.append(f"| {pid} {esc(c.get('title'))} | {', '.join(mods)} | {len(th)} ({len(ties)}) | {', '.join(c.get('gen_facts', []))} | `{c.get('harness')}`: {cs.get('quick')} / {cs.get('thorough')} |")
    return "\n".join(out)

def seeded():
    out = ["| seeded change | breaks | what it changes | needs to manifest | detection by my checks |", "|---|---|---|---|---|"]
    for d in sorted(glob.glob(os.path.join(root, "seeded", "C*-*"))):
        p = os.path.join(d, "meta.json")
        if not os.path.exists(p): continue
        m = json.load(open(p))
        dets = "; ".join(f"{k}: {v}" for k, v in sorted(m.get("detection", {}).items())) or "not run"
        out.append(f"| {m['id']} | {m['property']} | {esc(m.get('summary'))[:260]} | {esc(m.get('needs'))[:200]} | {esc(dets)} |")
    return "\n".join(out)

gens = {"findings": findings, "asbuilt": asbuilt, "seeded": seeded}
path = os.path.join(root, "DESIGN.md")
txt = open(path).read()
for name, fn in gens.items():
    pat = re.compile(r"(<!-- GEN:%s -->\n).*?(<!-- /GEN:%s -->)" % (name, name), re.S)
    if not pat.search(txt):
        print("marker missing:", name); continue
    txt = pat.sub(lambda m: m.group(1) + fn() + "\n" + m.group(2), txt)
open(path, "w").write(txt)
print("DESIGN.md tables regenerated")
