#!/usr/bin/env python3
"""Builds MANIFEST.json from checks/*.json (one file per claimed property)."""
import json, os, glob
root = os.path.join(os.path.dirname(os.path.abspath(__file__)), "..")
props = [json.loads(l) for l in open(os.path.join(root, "properties.jsonl")) if l.strip()]
na_path = os.path.join(root, "checks", "not_applicable.json")
na_extra = json.load(open(na_path)) if os.path.exists(na_path) else {}
checks, na = [], []
for p in props:
    pid = p["id"]
    cp = os.path.join(root, "checks", pid + ".json")
    if os.path.exists(cp) and pid not in na_extra:
        c = json.load(open(cp))
        checks.append({
            "property_id": pid,
            "quick_cmd": f"./check {pid} --tier quick",
            "thorough_cmd": f"./check {pid} --tier thorough",
            "evidence_file": f"evidence/{pid}.json",
            "replay_cmd_template": f"./check {pid} --replay {{path}}",
            "engine": "lean4-proof+correspondence",
            "level_claimed": {"category": "proof", "text": c["level_text"], "design_ref": c.get("design_ref", "DESIGN.md §7")},
            "level_note": c["level_note"],
            "technique": c["technique"],
        })
    else:
        na.append({"property_id": pid, "reason": na_extra.get(pid, "no check is registered for this property yet: its Lean model/theorems and correspondence harness are not built (planned, DESIGN.md §10); nothing is claimed")})
hooks_path = os.path.join(root, "checks", "hooks.json")
hooks = json.load(open(hooks_path)) if os.path.exists(hooks_path) else {}
man = {
    "version": 1,
    "setup_cmd": "./setup.sh",
    "hooks": {
        "guard": "verif",
        "enable": "go build -tags verif (every harness under /verif/harness is built with -tags verif against /repo's working tree)",
        "baseline_off_cmd": "cd /repo && GOFLAGS=-mod=mod go test -vet=off -count=1 -timeout 25m ./...",
        "source_commits": hooks.get("source_commits", []),
        "add_only": True,
    },
    "engines": [
        {"name": "lean4-proof+correspondence", "path": "lean/", "serves_properties": [c["property_id"] for c in checks],
         "kind_free_text": "Lean 4 theorems over hand-written executable models (lean/OpenFGAVerif/Model) plus data regenerated from the Go source by a go/ast translator (extract/ -> lean/OpenFGAVerif/Gen); a Go harness (harness/) runs the real code in-process and a Lean driver runs the model and the spec on the same case lines"}
    ],
    "checks": checks,
    "not_applicable": na,
    "notes": "Single entry point ./check <id>; per-property configuration in checks/<id>.json; conventions in CONVENTIONS.md; design in DESIGN.md.",
}
json.dump(man, open(os.path.join(root, "MANIFEST.json"), "w"), indent=1)
print(f"{len(checks)} checks, {len(na)} not_applicable")
