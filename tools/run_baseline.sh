#!/bin/bash
# Runs the repository's pinned test suite (command of /root/.vp/BASELINE.json) on /repo's working tree and compares the
# passing tests with the baseline's stable_pass list. Used after every unguarded "fix:" commit.
set -u
OUT=${1:-/verif/.build/work/baseline.gotest.json}
mkdir -p $(dirname $OUT)
cd /repo && GOFLAGS=-mod=mod GOPROXY=off go test -mod=mod -json -vet=off -count=1 -timeout 25m ./... > $OUT 2>/dev/null
python3 - "$OUT" <<'PY'
import json,sys
b=json.load(open('/root/.vp/BASELINE.json'))
passed=set(); failed=set()
for l in open(sys.argv[1]):
    try: e=json.loads(l)
    except Exception: continue
    if e.get('Test') and e.get('Action') in ('pass','fail'):
        (passed if e['Action']=='pass' else failed).add(e['Package']+'::'+e['Test'])
sp=set(b['stable_pass'])
missing=sorted(sp-passed)
print("passed",len(passed),"failed",len(failed),"stable_pass",len(sp),"stable_pass not passing now",len(missing))
for m in missing[:60]: print("  NOT PASSING:",m, "(failed)" if m in failed else "(not run)")
PY
