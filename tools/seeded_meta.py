#!/usr/bin/env python3
"""Builds seeded/<id>/meta.json and seeded/RESULTS.md from the blind-mutant metadata (/tmp/mutants), the confirmation
logs (seeded/<id>/confirm.log) and the outputs of tools/try_mutant.sh rounds (/tmp/lt/mut_round*.txt and extra lines given
in seeded/detections.txt as '<mutant> vs <check>: <result text>')."""
import glob, json, os, re
root = os.path.join(os.path.dirname(os.path.abspath(__file__)), "..")
det = {}
def add(mut, chk, res):
    det.setdefault(mut, {})[chk] = res      # later rounds overwrite earlier ones
files = sorted(glob.glob("/tmp/lt/mut_round*.txt")) + [os.path.join(root, "seeded", "detections.txt")]
for f in files:
    if not os.path.exists(f): continue
    cur = None
    for line in open(f):
        line = line.rstrip("\n")
        m = re.match(r"=== (C\d+[bc]?)(?: mutant |/)(\d+)(?: vs (C\d+))?", line)
        if m:
            cur = (f"{m.group(1)}-{m.group(2)}", m.group(3) or m.group(1)); continue
        m2 = re.match(r"(C\d+[bc]?-\d+) vs (C\d+): (.*)", line)
        if m2:
            add(m2.group(1), m2.group(2), m2.group(3)); continue
        if cur is None: continue
        if line.startswith("VIOLATION"):
            add(cur[0], cur[1], "caught (no failing input found: broken proof/tie/correspondence)" if "no-failing-input-found" in line else "caught with a concrete failing input as replay")
        elif line.startswith("PATCH-DOES-NOT-APPLY"):
            add(cur[0], cur[1], "patch no longer applies to the current /repo")
        elif re.match(r"C\d+ tier=", line) and cur[1] not in det.get(cur[0], {}):
            add(cur[0], cur[1], "missed (check passed)")
rows = []
for d in sorted(glob.glob(os.path.join(root, "seeded", "C*-*"))):
    mid = os.path.basename(d)
    am = os.path.join(d, "meta.agent.json")
    if not os.path.exists(am): continue
    a = json.load(open(am))
    log = open(os.path.join(d, "confirm.log")).read() if os.path.exists(os.path.join(d, "confirm.log")) else ""
    confirmed = "RESULT confirmed" in log
    meta = {
        "id": mid, "property": (re.match(r"C\d+", str(a.get("property", ""))) or re.match(r"C\d+", mid)).group(0),
        "summary": a.get("summary"), "needs": a.get("needs"), "demo_cmd": a.get("demo_cmd"),
        # the same demonstration from the copy kept here (run from the root of a worktree with patch.diff applied)
        "demo_cmd_from_seeded": (a.get("demo_cmd") or "").replace("/tmp/mutants/" + mid.replace("-", "/") + "/", "/verif/seeded/" + mid + "/"),
        "confirmed_by_coordinator": confirmed,
        "what_i_ran": "tools/confirm_mutant.sh: scratch worktree of /repo HEAD, git apply patch.diff, go build ./..., go test of the touched packages (docker-only failures ignored), demonstration with the patch (must fail) and without it (must pass); see confirm.log, demo_with_patch.log, demo_without_patch.log. Then tools/try_mutant.sh <check> patch.diff = VERIF_REPO=<scratch worktree> ./check <check>.",
        "detection": det.get(mid, {}),
        "agent_tests_run": a.get("tests_run"),
    }
    json.dump(meta, open(os.path.join(d, "meta.json"), "w"), indent=1)
    rows.append(meta)
with open(os.path.join(root, "seeded", "RESULTS.md"), "w") as f:
    f.write("# Seeded property-breaking changes and which check catches them\n\n| mutant | property | change | confirmed | detection |\n|---|---|---|---|---|\n")
    for m in rows:
        dets = "; ".join(f"{k}: {v}" for k, v in sorted(m["detection"].items())) or "not run yet"
        f.write(f"| {m['id']} | {m['property']} | {(m['summary'] or '')[:160].replace('|','/')} | {'yes' if m['confirmed_by_coordinator'] else 'NO'} | {dets} |\n")
print(len(rows), "mutants")
