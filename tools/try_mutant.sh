#!/bin/sh
# usage: tools/try_mutant.sh <Cxx> <patch.diff> [extra check args]   -> runs the check against a scratch worktree with the patch
set -u
P=$1; D=$2; shift 2
WT=/tmp/wt_try_$$
git -C /repo worktree add --detach $WT >/dev/null 2>&1 || exit 3
if ! git -C $WT apply "$D"; then echo "PATCH-DOES-NOT-APPLY"; git -C /repo worktree remove --force $WT; exit 4; fi
cd /verif && VERIF_REPO=$WT ./check $P "$@" 2>&1 | grep -E "^(VIOLATION|KNOWN|BROKEN|C[0-9]+ tier)" | cut -c1-400
rc=$?
H=$(printf %s "$WT" | sha256sum | cut -c1-8); rm -f /verif/.build/bin/*-$H /verif/harness/.go-$H.mod /verif/harness/.go-$H.sum
git -C /repo worktree remove --force $WT
